"""Overlay + Kani/Verus driver.  See DESIGN.md §1 for the protocol this implements."""
import argparse, json, os, re, shutil, signal, subprocess, sys, threading, time, glob, hashlib

VERIF = os.path.dirname(os.path.dirname(os.path.abspath(__file__)))
CACHE = os.path.join(VERIF, ".cache")
CONTRACTS = os.path.join(VERIF, "contracts")
SCRATCH_ROOT = os.environ.get("VERIF_SCRATCH", "/tmp/tfverif")
RSS_CAP_KB = int(os.environ.get("VERIF_RSS_CAP_GB", "24")) * 1024 * 1024
JOBS = int(os.environ.get("VERIF_JOBS", "12"))
TAG = os.environ.get("VERIF_TAG", "")   # set for experiments on scratch copies of the repository: separate logs/replays, no evidence

GLOBAL_ASSUMPTIONS = [
    "A1 Kani's MIR->GOTO translation, CBMC 6.11 and its SAT back end (cadical) are sound; likewise Verus/Z3 where used",
    "A2 std/alloc/core behave as Kani's models of them (allocation never fails; Arc, Vec, BTreeMap, slice order = lexicographic, str order = byte order)",
    "A3 third-party crates are verified as compiled code when reached, except where a harness stubs them (listed per harness)",
    "A4 64-bit target (usize == u64)",
    "A7 termination is not proved by Kani",
]


def log(*a):
    print(*a, file=sys.stderr, flush=True)


# --------------------------------------------------------------------------------------------
# Overlay parsing
# --------------------------------------------------------------------------------------------
class Harness:
    def __init__(self, name):
        self.name = name
        self.tier = "quick"
        self.kind = "complete"      # complete | bounded
        self.expect = "pass"        # pass | fail (negative control)
        self.timeout = min(600, int(os.environ.get("VERIF_TIMEOUT_CAP", "100000")))
        self.cbmc = ""
        self.bound = ""
        self.obligations = []
        self.module = ""            # rust module path inside the crate
        self.modname = ""
        self.target = ""
        self.prop = ""
        self.solver = ""
        self.repeat = ""            # native grids: run N times in separate processes and require identical VERIF-GRID-DIGEST lines
        self.heavy = ""             # "1": multi-GB CBMC run; such harnesses run at most 3 at a time
        self.unwindset = ""         # "regex=N;regex=N": per-loop bounds, resolved against `cbmc --show-loops`

    @property
    def full(self):
        return f"{self.module}::{self.name}"


class Overlay:
    def __init__(self, path):
        self.path = path
        self.target = None
        self.modname = None
        self.fns = []         # functions under contract: (file, needle)
        self.contracts = []   # (needle, [attr lines])
        self.harnesses = []
        self.cfg = "any(kani, verif_replay)"
        self.text = open(path).read()
        self._parse()

    def _parse(self):
        cur = None
        pending = None
        lines = self.text.split("\n")
        i = 0
        while i < len(lines):
            s = lines[i].strip()
            if s.startswith("// @target "):
                self.target = s[len("// @target "):].strip()
            elif s.startswith("// @cfg "):
                self.cfg = s[len("// @cfg "):].strip()
            elif s.startswith("// @module "):
                self.modname = s[len("// @module "):].strip()
            elif s.startswith("// @fn "):
                spec = s[len("// @fn "):].strip()
                if "::" in spec and spec.split("::")[0].endswith(".rs"):
                    f, n = spec.split("::", 1)
                else:
                    f, n = None, spec
                self.fns.append((f, n))
            elif s.startswith("// @contract "):
                needle = s[len("// @contract "):].strip()
                attrs = []
                j = i + 1
                while j < len(lines) and lines[j].strip().startswith("// |"):
                    attrs.append(lines[j].strip()[len("// |"):].strip())
                    j += 1
                self.contracts.append((needle, attrs))
                i = j - 1
            elif s.startswith("// @harness "):
                parts = s[len("// @harness "):].split()
                pending = Harness(parts[0])
                for kv in re.findall(r'(\w+)=("[^"]*"|\S+)', " ".join(parts[1:])):
                    k, v = kv[0], kv[1].strip('"')
                    if k == "timeout":
                        v = min(int(v), int(os.environ.get("VERIF_TIMEOUT_CAP", "100000")))
                    setattr(pending, k, v)
            elif s.startswith("// @grid "):
                parts = s[len("// @grid "):].split()
                pending = Harness(parts[0])
                pending.kind = "native-grid"
                for kv in re.findall(r'(\w+)=("[^"]*"|\S+)', " ".join(parts[1:])):
                    k, v = kv[0], kv[1].strip('"')
                    if k == "timeout":
                        v = int(v)
                    setattr(pending, k, v)
            elif s.startswith("// @ob ") and pending is not None:
                pending.obligations.append(s[len("// @ob "):].strip())
            elif pending is not None:
                m = re.match(r"(pub(\(crate\))?\s+)?fn\s+(\w+)\s*\(", s) or re.match(r"(\w+!)(\()(\w+),", s)
                if m:
                    if m.group(3) != pending.name:
                        raise SystemExit(f"overlay {self.path}: @harness {pending.name} precedes fn {m.group(3)}")
                    self.harnesses.append(pending)
                    pending = None
            i += 1
        if not self.target or not self.modname:
            raise SystemExit(f"overlay {self.path}: missing @target/@module")
        modpath = self.target
        assert modpath.startswith("trustfall_core/src/")
        modpath = modpath[len("trustfall_core/src/"):-3]
        segs = [x for x in modpath.split("/") if x not in ("mod", "lib")]
        self.module = "::".join(segs + [self.modname])
        for h in self.harnesses:
            h.module = self.module
            h.modname = self.modname
            h.target = self.target

    def body(self):
        """Module text appended to the target file."""
        out = []
        for line in self.text.split("\n"):
            m = re.match(r"^(\s*)#\[kani::(.*)\]\s*$", line)
            if m:
                out.append(f"{m.group(1)}#[cfg_attr(kani, kani::{m.group(2)})]")
            else:
                out.append(line)
        arms = "\n".join(f'            "{h.name}" => {h.name}(),' for h in self.harnesses)
        entry = f"""
    #[cfg(all(test, verif_replay))]
    #[test]
    fn verif_replay_entry() {{
        let h = std::env::var("VERIF_REPLAY_HARNESS").expect("VERIF_REPLAY_HARNESS");
        match h.as_str() {{
{arms}
            other => panic!("verif_replay: unknown harness {{other}}"),
        }}
    }}
"""
        return (
            f"\n\n// ---- appended by /verif overlay ({os.path.relpath(self.path, VERIF)}) ----\n"
            f"#[cfg({self.cfg})]\n#[allow(warnings, clippy::all)]\n"
            f"pub(crate) mod {self.modname} {{\n#[allow(unused_imports)] use crate::{{verif_cover, verif_split3, verif_split5}};\n" + "\n".join(out) + entry + "}\n"
        )


def load_property(prop):
    d = os.path.join(CONTRACTS, prop)
    if not os.path.isdir(d):
        raise SystemExit(f"no contracts for property {prop}")
    ovs = [Overlay(p) for p in sorted(glob.glob(os.path.join(d, "*.rs")))]
    for o in ovs:
        for h in o.harnesses:
            h.prop = prop
    meta = {}
    mp = os.path.join(d, "meta.json")
    if os.path.exists(mp):
        meta = json.load(open(mp))
    return ovs, meta


# --------------------------------------------------------------------------------------------
# Scratch copy + overlay
# --------------------------------------------------------------------------------------------
def make_scratch(repo, prop, overlays, tag=""):
    root = os.path.join(SCRATCH_ROOT, prop + tag)
    shutil.rmtree(root, ignore_errors=True)
    ws = os.path.join(root, "ws")
    os.makedirs(ws)
    subprocess.check_call(["rsync", "-a", "--exclude", "target", "--exclude", "fuzz",
                           os.path.join(repo, "trustfall_core"), ws + "/"])
    subprocess.check_call(["rsync", "-a", "--exclude", "target",
                           os.path.join(repo, "trustfall_filetests_macros"), ws + "/"])
    shutil.copy(os.path.join(repo, "Cargo.lock"), ws)
    t = open(os.path.join(repo, "Cargo.toml")).read()
    t2 = re.sub(r"members = \[.*?\]", 'members = ["trustfall_core", "trustfall_filetests_macros"]', t, count=1, flags=re.S)
    if t2 == t:
        raise Undecided("lost anchor: workspace members list not found in Cargo.toml")
    open(os.path.join(ws, "Cargo.toml"), "w").write(t2)
    os.makedirs(os.path.join(ws, ".cargo"), exist_ok=True)
    open(os.path.join(ws, ".cargo", "config.toml"), "w").write("[net]\noffline = true\n")
    # common modules -> lib.rs
    lib = os.path.join(ws, "trustfall_core/src/lib.rs")
    with open(lib, "a") as f:
        f.write("\n\n// ---- appended by /verif overlay (common) ----\n")
        for name in sorted(os.listdir(os.path.join(CONTRACTS, "common"))):
            if not name.endswith(".rs"):
                continue
            mod = name[:-3]
            body = open(os.path.join(CONTRACTS, "common", name)).read()
            f.write(f"#[cfg(any(kani, verif_replay))]\n#[allow(warnings, clippy::all)]\n#[macro_use]\npub(crate) mod {mod} {{\n{body}\n}}\n")
    anchors = []
    for o in overlays:
        tgt = os.path.join(ws, o.target)
        if not os.path.exists(tgt):
            raise Undecided(f"lost anchor: {o.target} does not exist")
        src = open(tgt).read()
        # contract-mode attribute insertion
        if o.contracts:
            lines = src.split("\n")
            for needle, attrs in o.contracts:
                hits = [k for k, l in enumerate(lines) if l.strip().startswith(needle)]
                if len(hits) != 1:
                    raise Undecided(f"lost anchor: `{needle}` found {len(hits)} times in {o.target}")
                k = hits[0]
                indent = re.match(r"\s*", lines[k]).group(0)
                lines[k:k] = [indent + a for a in attrs]
            src = "\n".join(lines)
        # anchors for the evidence (file:line in the *repository* tree)
        for f, n in o.fns:
            rel = f or o.target
            p = os.path.join(repo, rel)
            if not os.path.exists(p):
                raise Undecided(f"lost anchor: {rel} does not exist")
            last = n.split("::")[-1]
            found = None
            for k, l in enumerate(open(p).read().split("\n")):
                if re.search(r"\bfn\s+" + re.escape(last) + r"\b", l) or re.search(r"\b(struct|enum|impl|macro_rules!)\s+" + re.escape(last) + r"\b", l):
                    found = k + 1
                    break
            if found is None:
                raise Undecided(f"lost anchor: fn {n} not found in {rel}")
            anchors.append(f"{n} ({rel}:{found})")
        open(tgt, "w").write(src + o.body())
    return root, ws, anchors


class Undecided(Exception):
    pass


# --------------------------------------------------------------------------------------------
# Kani
# --------------------------------------------------------------------------------------------
def kani_env():
    env = dict(os.environ)
    env["CARGO_NET_OFFLINE"] = "true"
    env["CARGO_TARGET_DIR"] = os.path.join(CACHE, "target-kani")
    env.pop("RUSTFLAGS", None)
    return env


PEAK_RSS = {}


def watchdog(proc, stop, killed):
    """Kill any cbmc in proc's session whose RSS exceeds the cap."""
    while not stop.is_set():
        try:
            for pid in os.listdir("/proc"):
                if not pid.isdigit():
                    continue
                try:
                    if os.getsid(int(pid)) != proc.pid:
                        continue
                    st = open(f"/proc/{pid}/status").read()
                except Exception:
                    continue
                m = re.search(r"VmRSS:\s+(\d+) kB", st)
                n = re.search(r"Name:\s+(\S+)", st)
                if m and n and n.group(1).startswith("cbmc"):
                    PEAK_RSS["kb"] = max(PEAK_RSS.get("kb", 0), int(m.group(1)))
                    if int(m.group(1)) > RSS_CAP_KB:
                        killed.append((pid, int(m.group(1))))
                        os.kill(int(pid), signal.SIGKILL)
        except Exception:
            pass
        stop.wait(2.0)


def run_cmd(cmd, cwd, env, timeout):
    t0 = time.time()
    proc = subprocess.Popen(cmd, cwd=cwd, env=env, stdout=subprocess.PIPE, stderr=subprocess.STDOUT,
                            text=True, start_new_session=True)
    stop, killed = threading.Event(), []
    th = threading.Thread(target=watchdog, args=(proc, stop, killed), daemon=True)
    th.start()
    timed_out = False
    try:
        out, _ = proc.communicate(timeout=timeout)
    except subprocess.TimeoutExpired:
        timed_out = True
        try:
            os.killpg(proc.pid, signal.SIGKILL)
        except Exception:
            pass
        out, _ = proc.communicate()
    stop.set()
    return proc.returncode, out, time.time() - t0, timed_out, killed


UNDECIDED_PAT = re.compile(r"unwinding assertion|recursion unwinding|is not currently supported by Kani|call to foreign|unsupported|Function with missing definition", re.I)


def classify(h, res, cbmc_stats):
    """-> dict(status=pass|refuted|undecided, reason, failed=[...], checks=n, ok=n, covers=...)"""
    checks = res.get("checks", [])
    real, soft, cover_bad, ok, n, cov_ok = [], [], [], 0, 0, 0
    cov = {}
    for c in checks:
        st = c.get("status", "")
        cat = c.get("category", "")
        desc = c.get("description", "")
        if cat == "cover":
            # a cover label duplicated by macro expansion / path splitting counts as witnessed when
            # at least one of its instances is satisfied
            cov[desc] = cov.get(desc, False) or st.lower() == "satisfied"
            continue
        n += 1
        if st in ("Success", "Unreachable"):
            ok += 1
        elif st == "Failure":
            if cat in ("unwind", "unsupported_construct") or UNDECIDED_PAT.search(desc):
                soft.append(c)
            else:
                real.append(c)
    cov_ok = sum(1 for v in cov.values() if v)
    cover_bad = [d for d, v in cov.items() if not v]
    out = dict(checks=n, ok=ok, covers_ok=cov_ok, failed=real, soft=soft, cover_bad=cover_bad,
               solver_s=(cbmc_stats or {}).get("runtime_solver_s"), symex_s=(cbmc_stats or {}).get("runtime_symex_s"),
               duration_s=res.get("duration_ms", 0) / 1000.0)
    if real:
        out["status"] = "refuted"
        out["reason"] = "; ".join(f"{c['description']} @ {c['location'].get('file','?')}:{c['location'].get('line','?')}" for c in real[:5])
    elif soft:
        out["status"] = "undecided"
        out["reason"] = "unwinding/unsupported: " + "; ".join(c["description"] for c in soft[:3])
    elif cover_bad:
        out["status"] = "undecided"
        out["reason"] = "vacuous: cover not satisfied: " + "; ".join(cover_bad[:3])
    elif res.get("status") == "Success" and n > 0:
        out["status"] = "pass"
        out["reason"] = ""
    else:
        out["status"] = "undecided"
        out["reason"] = f"kani status {res.get('status')} with {n} checks"
    return out


def run_kani(ws, harnesses, logdir):
    """Run the given harnesses; return {name: classification}."""
    results = {}
    groups = {}
    for h in harnesses:
        groups.setdefault((h.cbmc, h.solver, h.heavy), []).append(h)
    for gi, ((cbmc, solver, heavy), hs) in enumerate(sorted(groups.items())):
        jobs = min(3 if heavy else JOBS, max(1, len(hs)))
        jpath = os.path.join(logdir, f"kani-{gi}.json")
        tmax = max(h.timeout for h in hs)
        cmd = ["cargo", "kani", "-p", "trustfall_core", "-Z", "function-contracts", "-Z", "stubbing",
               "-Z", "unstable-options", "--exact", "-j", str(jobs), "--output-format", "terse",
               "--harness-timeout", f"{tmax}s", "--export-json", jpath]
        if solver:
            cmd += ["--solver", solver]
        for h in hs:
            cmd += ["--harness", h.full]
        extra = cbmc.split() if cbmc else []
        if any(h.unwindset for h in hs):
            us, problems = resolve_unwindsets(ws, hs, cmd, logdir, gi)
            for h, why in problems:
                results[h.name] = dict(status="undecided", reason=why, checks=0, ok=0, covers_ok=0, failed=[], soft=[], cover_bad=[], solver_s=None, symex_s=None, duration_s=0)
            if us:
                extra += ["--unwindset", ",".join(us)]
            if problems:
                # do not spend solver time on harnesses whose loop anchors were lost
                bad = {h.full for h, _ in problems}
                k = 0
                while k < len(cmd):
                    if cmd[k] == "--harness" and cmd[k + 1] in bad:
                        del cmd[k:k + 2]
                    else:
                        k += 1
                hs = [h for h in hs if h.full not in bad]
                if not hs:
                    continue
        if extra:
            cmd += ["--cbmc-args"] + extra
        waves = (len(hs) + jobs - 1) // jobs
        rc, out, wall, timed_out, killed = run_cmd(cmd, ws, kani_env(), tmax * waves + 900)
        open(os.path.join(logdir, f"kani-{gi}.log"), "w").write(" ".join(cmd) + "\n" + out)
        data = None
        if os.path.exists(jpath):
            try:
                data = json.load(open(jpath))
            except Exception:
                data = None
        compile_error = ("error: could not compile" in out) or re.search(r"^error(\[E\d+\])?:", out, re.M) is not None and "Checking harness" not in out
        by = {}
        stats = {}
        errd = {}
        if data:
            for e in data.get("error_details", []):
                errd[e["harness_id"]] = e
            for r in data.get("verification_results", {}).get("results", []):
                by[r["harness_id"]] = r
            for c in data.get("cbmc", []):
                stats[c["harness_id"]] = c.get("cbmc_stats", {})
        for h in hs:
            if h.name in results:
                continue
            if h.full in by:
                results[h.name] = classify(h, by[h.full], stats.get(h.full))
                ex = errd.get(h.full, {}).get("exit_status")
                if ex == "timeout" or (not by[h.full].get("checks") and by[h.full].get("status") != "Success"):
                    results[h.name]["status"] = "undecided"
                    results[h.name]["reason"] = f"cbmc {ex or 'produced no result'} after {by[h.full].get('duration_ms', 0) / 1000:.0f}s (timeout/out of memory/crash)"
            else:
                reason = "no result from kani"
                if compile_error:
                    errs = re.findall(r"^error.*$", out, re.M)[:4]
                    reason = "overlay/compile error (lost anchor?): " + " | ".join(errs)
                elif timed_out:
                    reason = "timeout (driver)"
                elif killed:
                    reason = f"cbmc killed by memory watchdog {killed}"
                elif re.search(re.escape(h.full) + r".*(timed out|timeout)", out, re.I) or "timed out" in out.lower():
                    reason = "timeout (harness)"
                results[h.name] = dict(status="undecided", reason=reason, checks=0, ok=0, covers_ok=0, failed=[], soft=[], cover_bad=[], solver_s=None, symex_s=None, duration_s=wall)
        results.setdefault("_wall", 0)
        results["_wall"] += wall
    return results


def find_goto_binary(name):
    pat = os.path.join(CACHE, "target-kani", "kani", "*", "debug", "build", "trustfall_core", "*", "out", f"*{len(name)}{name}.out")
    cands = [p for p in glob.glob(pat) if not p.endswith(".symtab.out")]
    return max(cands, key=os.path.getmtime) if cands else None


def show_loops(binary):
    rc, out, _, _, _ = run_cmd(["cbmc", "--show-loops", binary], os.path.dirname(binary), dict(os.environ), 120)
    loops = []
    for m in re.finditer(r"^Loop (\S+):\n\s+(.*)$", out, re.M):
        loops.append((m.group(1), m.group(2)))
    return loops


def resolve_unwindsets(ws, hs, cmd, logdir, gi):
    """Per-loop unwinding bounds are given as regexes over loop id + location; resolve them to CBMC
    loop ids by compiling first (`--only-codegen`) and asking `cbmc --show-loops`."""
    ccmd = [c for c in cmd]
    # strip verification-only flags
    for flag, nargs in (("-j", 1), ("--output-format", 1), ("--harness-timeout", 1), ("--export-json", 1)):
        while flag in ccmd:
            k = ccmd.index(flag)
            del ccmd[k:k + 1 + nargs]
    ccmd.append("--only-codegen")
    rc, out, wall, to, _ = run_cmd(ccmd, ws, kani_env(), 1800)
    open(os.path.join(logdir, f"kani-{gi}-codegen.log"), "w").write(" ".join(ccmd) + "\n" + out)
    entries, problems = {}, []
    for h in hs:
        if not h.unwindset:
            continue
        b = find_goto_binary(h.name)
        if rc != 0 or b is None:
            continue  # compile error is reported by the main run
        loops = show_loops(b)
        for item in h.unwindset.split(";"):
            if not item.strip():
                continue
            pat, n = item.rsplit("=", 1)
            if pat.startswith("!"):
                # literal CBMC loop id (loops of CBMC's built-in library such as memcmp.0 are not
                # listed by --show-loops before linking)
                entries[pat[1:]] = max(entries.get(pat[1:], 0), int(n))
                continue
            hits = [lid for lid, desc in loops if re.search(pat, lid + " " + desc)]
            if not hits:
                problems.append((h, f"lost anchor: unwindset pattern `{pat}` matches no loop of harness {h.name}"))
            for lid in hits:
                entries[lid] = max(entries.get(lid, 0), int(n))
    return [f"{k}:{v}" for k, v in sorted(entries.items())], problems


class NativeTree:
    """All native (replay / grid) builds happen in one fixed directory under an exclusive lock: the
    dev-dependency proc-macro crate bakes its manifest path in at compile time, so a shared build
    cache is only valid for a fixed source path."""
    def __init__(self, ws):
        self.ws = ws
        self.dir = os.path.join(SCRATCH_ROOT, "native")
    def __enter__(self):
        import fcntl
        os.makedirs(self.dir, exist_ok=True)
        self.lock = open(os.path.join(SCRATCH_ROOT, "native.lock"), "w")
        fcntl.flock(self.lock, fcntl.LOCK_EX)
        subprocess.check_call(["rsync", "-rl", "--checksum", "--delete", self.ws + "/", os.path.join(self.dir, "ws") + "/"])
        return os.path.join(self.dir, "ws")
    def __exit__(self, *a):
        import fcntl
        fcntl.flock(self.lock, fcntl.LOCK_UN)
        self.lock.close()


def replay_env(h, inp):
    env = dict(os.environ)
    env["CARGO_NET_OFFLINE"] = "true"
    env["CARGO_TARGET_DIR"] = os.path.join(CACHE, "target-replay")
    env["RUSTFLAGS"] = "--cfg verif_replay -Awarnings"
    env["VERIF_REPLAY_HARNESS"] = h.name
    env["VERIF_REPLAY_INPUT"] = inp
    env["RUST_BACKTRACE"] = "0"
    return env


def run_grids(ws, grids, logdir):
    """Bounded stand-in: execute grid harness bodies natively on the real code (repository toolchain)."""
    out = {}
    empty = os.path.join(logdir, "empty-input.txt")
    open(empty, "w").write("")
    for h in grids:
        cmd = ["cargo", "test", "--offline", "-p", "trustfall_core", "--lib", f"{h.module}::verif_replay_entry", "--", "--exact", "--nocapture", "--test-threads", "1"]
        digests = []
        reps = int(h.repeat or 1)
        for rep in range(reps):
            with NativeTree(ws) as nws:
                rc, o, wall, to, _ = run_cmd(cmd, nws, replay_env(h, empty), max(h.timeout, 1500))
            open(os.path.join(logdir, f"grid-{h.name}{'-' + str(rep) if rep else ''}.log"), "w").write(o)
            digests.append(re.findall(r"VERIF-GRID-DIGEST ([^\n]*)", o))
            if rc != 0:
                break
        m = re.search(r"VERIF-GRID-DONE " + re.escape(h.name) + r" cases=(\d+)", o)
        panics = re.findall(r"panicked at ([^\n]*):\n([^\n]*)", o)
        cases = re.findall(r"VERIF-GRID-CASE: ([^\n]*)", o)
        r = dict(checks=0, ok=0, covers_ok=0, failed=[], soft=[], cover_bad=[], solver_s=None, symex_s=None, duration_s=wall, cases=int(m.group(1)) if m else 0)
        if "error: could not compile" in o or re.search(r"^error(\[E\d+\])?:", o, re.M) and "running 1 test" not in o:
            r.update(status="undecided", reason="overlay/compile error (lost anchor?): " + " | ".join(re.findall(r"^error.*$", o, re.M)[:3]))
        elif to:
            r.update(status="undecided", reason="timeout (native grid)")
        elif panics and rc != 0:
            at, msg = panics[-1]   # the uncaught one (grids may catch and record panics of individual cases)
            r.update(status="refuted", reason=f"{msg} @ {at} on case {cases[-1] if cases else '?'}", case=cases[-1] if cases else None, tail=o[-2500:],
                     failed=[dict(description=msg, category="native-assertion", function=h.full, location=dict(file=at))])
        elif reps > 1 and rc == 0 and any(d != digests[0] for d in digests[1:]):
            diff = [a for a, b in zip(digests[0], digests[-1]) if a != b][:3]
            r.update(status="refuted", reason=f"results differ between two processes (different hash seeds): {diff}", case="process 1 vs process 2", tail="\n".join(diff),
                     failed=[dict(description="nondeterministic across processes: " + "; ".join(d.split()[0] for d in diff), category="native-assertion", function=h.full, location=dict(file="(digest comparison)"))])
        elif m and int(m.group(1)) > 0 and rc == 0:
            r.update(status="pass", reason="")
        else:
            r.update(status="undecided", reason="grid did not complete: " + o[-300:])
        out[h.name] = r
    return out


def concrete_playback(ws, h, logdir):
    cmd = ["cargo", "kani", "-p", "trustfall_core", "-Z", "function-contracts", "-Z", "stubbing", "-Z", "unstable-options",
           "-Z", "concrete-playback", "--concrete-playback=print", "--exact", "--harness", h.full,
           "--harness-timeout", f"{h.timeout}s"]
    if h.solver:
        cmd += ["--solver", h.solver]
    extra = h.cbmc.split() if h.cbmc else []
    if h.unwindset:
        us, _ = resolve_unwindsets(ws, [h], cmd, logdir, "pb-" + h.name)
        if us:
            extra += ["--unwindset", ",".join(us)]
    if extra:
        cmd += ["--cbmc-args"] + extra
    rc, out, wall, to, killed = run_cmd(cmd, ws, kani_env(), h.timeout + 600)
    open(os.path.join(logdir, f"playback-{h.name}.log"), "w").write(out)
    m = re.search(r"Concrete playback unit test for.*?```(.*?)```", out, re.S)
    if not m:
        return None, out
    vecs, comments = [], []
    last_comment = ""
    for line in m.group(1).split("\n"):
        s = line.strip()
        if s.startswith("//") and not s.startswith("///"):
            last_comment = s[2:].strip()
        mm = re.match(r"vec!\[([0-9,\s]*)\],?$", s)
        if mm and "concrete_vals" not in s:
            bs = [int(x) for x in mm.group(1).replace(" ", "").split(",") if x != ""]
            vecs.append(bs)
            comments.append(last_comment)
    return (vecs, comments), out


def native_replay(ws, h, vecs, logdir):
    """Execute the harness body natively (repository toolchain) on the counterexample values."""
    inp = os.path.join(logdir, f"replay-input-{h.name}.txt")
    open(inp, "w").write("\n".join(",".join(str(b) for b in v) for v in vecs) + "\n")
    env = dict(os.environ)
    env["CARGO_NET_OFFLINE"] = "true"
    env["CARGO_TARGET_DIR"] = os.path.join(CACHE, "target-replay")
    env["RUSTFLAGS"] = "--cfg verif_replay -Awarnings"
    env["VERIF_REPLAY_HARNESS"] = h.name
    env["VERIF_REPLAY_INPUT"] = inp
    env["RUST_BACKTRACE"] = "0"
    cmd = ["cargo", "test", "--offline", "-p", "trustfall_core", "--lib", f"{h.module}::verif_replay_entry", "--", "--exact", "--nocapture", "--test-threads", "1"]
    with NativeTree(ws) as nws:
        rc, out, wall, to, killed = run_cmd(cmd, nws, env, 1500)
    open(os.path.join(logdir, f"replay-native-{h.name}.log"), "w").write(out)
    panics = re.findall(r"panicked at ([^\n]*):\n([^\n]*)", out)
    ran = "running 1 test" in out
    return dict(ran=ran, rc=rc, panics=[{"at": a, "message": m} for a, m in panics][:5],
                assumption_violated="VERIF-REPLAY: assumption violated" in out, tail=out[-1500:])


# --------------------------------------------------------------------------------------------
# Known findings
# --------------------------------------------------------------------------------------------
def load_findings():
    p = os.path.join(VERIF, "known_findings.txt")
    out = []
    if os.path.exists(p):
        for line in open(p):
            s = line.strip()
            if s.startswith("finding:"):
                kv = dict(re.findall(r'(\w+)=("[^"]*"|\S+)', s[len("finding:"):]))
                kv = {k: v.strip('"') for k, v in kv.items()}
                kv["text"] = s
                out.append(kv)
    return out


def finding_for(findings, prop, h, failed_checks):
    """A refuted harness is a known finding iff *every* failed check matches one listed entry."""
    matched = None
    for c in failed_checks:
        desc = c.get("description", "").strip('"')
        hit = None
        for f in findings:
            if f.get("property") == prop and f.get("harness") == h.name and f.get("check", "") in desc:
                hit = f
        if hit is None:
            return None
        matched = hit
    return matched


# --------------------------------------------------------------------------------------------
# Verus (single-file, mechanical extraction)
# --------------------------------------------------------------------------------------------
def run_verus(repo, prop, logdir):
    vdir = os.path.join(CONTRACTS, prop, "verus")
    results = []
    if not os.path.isdir(vdir):
        return results
    sys.path.insert(0, os.path.join(VERIF, "tools"))
    import extract_fn
    for tpl in sorted(glob.glob(os.path.join(vdir, "*.rs"))):
        name = os.path.basename(tpl)
        r = dict(file=name, backend="verus", status="undecided", reason="", verified=0, errors=0, extraction=[])
        try:
            text, notes = extract_fn.instantiate(open(tpl).read(), repo)
            r["extraction"] = notes
        except extract_fn.ExtractError as e:
            r["reason"] = f"lost anchor: {e}"
            results.append(r)
            continue
        out_rs = os.path.join(logdir, "verus-" + name)
        open(out_rs, "w").write(text)
        t0 = time.time()
        rc, out, wall, to, killed = run_cmd(["verus", out_rs, "--output-json", "--time"], logdir, dict(os.environ), 600)
        open(os.path.join(logdir, "verus-" + name + ".log"), "w").write(out)
        r["wall_s"] = round(wall, 2)
        j = None
        m = re.search(r"\{.*\}", out, re.S)
        if m:
            try:
                j = json.loads(m.group(0))
            except Exception:
                j = None
        vr = (j or {}).get("verification-results", {})
        r["verified"] = vr.get("verified", 0)
        r["errors"] = vr.get("errors", 0)
        r["smt_s"] = ((j or {}).get("times-ms", {}).get("smt", {}) or {}).get("total", 0) / 1000.0 if j else None
        if to:
            r["reason"] = "timeout"
        elif j is None:
            r["reason"] = "no verus json: " + out[-300:]
        elif vr.get("success") and r["errors"] == 0 and r["verified"] > 0:
            r["status"] = "pass"
        else:
            errs = re.findall(r"error: ([^\n]*)", out)
            semantic = [e for e in errs if re.search(r"postcondition not satisfied|assertion failed|precondition not satisfied|invariant not satisfied|possible arithmetic|decreases not satisfied", e)]
            other = [e for e in errs if e not in semantic and not e.startswith("aborting")]
            if semantic and not other:
                r["status"] = "refuted"
                r["reason"] = "; ".join(semantic[:3])
            else:
                r["reason"] = "verus error: " + "; ".join((other or errs)[:3])
            r["output"] = out[-3000:]
        results.append(r)
    return results


# --------------------------------------------------------------------------------------------
# Assumption scan
# --------------------------------------------------------------------------------------------
def scan_assumptions(prop):
    pats = ["kani::assume", "vk::assume", "assume_specification", "external_body", "admit(", "kani::stub(", "kani::stub_verified", "assume("]
    found = {}
    for root, _, files in os.walk(os.path.join(CONTRACTS, prop)):
        for fn in files:
            if not fn.endswith(".rs"):
                continue
            t = open(os.path.join(root, fn)).read()
            for p in pats:
                c = t.count(p)
                if c:
                    found[f"{os.path.relpath(os.path.join(root, fn), CONTRACTS)}:{p}"] = c
    return found


# --------------------------------------------------------------------------------------------
# Main per-property check
# --------------------------------------------------------------------------------------------
def check_property(prop, tier, repo, only=None, keep=False, do_replay=True, write_evidence=True):
    t0 = time.time()
    seed = int(os.environ.get("VERIF_SEED", "0") or 0)
    overlays, meta = load_property(prop)
    logdir = os.path.join(CACHE, "logs", f"{prop}-{tier}{TAG}")
    shutil.rmtree(logdir, ignore_errors=True)
    os.makedirs(logdir)
    harnesses = [h for o in overlays for h in o.harnesses if (tier == "thorough" or h.tier == "quick")]
    if tier == "thorough":
        # a thorough variant `x_thorough` supersedes nothing automatically; all harnesses run.
        pass
    if only:
        harnesses = [h for h in harnesses if h.name in only]
    grids = [h for h in harnesses if h.kind == "native-grid"]
    harnesses = [h for h in harnesses if h.kind != "native-grid"]
    findings = load_findings()
    violations, undecided, known = [], [], []
    results, anchors, verus = {}, [], []
    root = None
    try:
        root, ws, anchors = make_scratch(repo, prop, overlays, "-" + tier + TAG)
        if meta.get("pre"):  # python hooks: static source scans (anchor drift etc.)
            import importlib
            mod = importlib.import_module(meta["pre"])
            for msg in mod.run(repo, prop):
                undecided.append(("pre", msg))
        if harnesses:
            results = run_kani(ws, harnesses, logdir)
        if grids:
            results.update(run_grids(ws, grids, logdir))
        if not only:
            verus = run_verus(repo, prop, logdir)
        # ---------------- verdicts
        for h in harnesses:
            r = results.get(h.name)
            if r is None:
                undecided.append((h.name, "not run"))
                continue
            if h.expect == "fail":
                if r["status"] == "refuted":
                    r["verdict"] = "control-ok"
                else:
                    r["verdict"] = "control-broken"
                    undecided.append((h.name, f"negative control did not fail ({r['status']}: {r['reason']})"))
                continue
            if r["status"] == "pass":
                r["verdict"] = "discharged"
            elif r["status"] == "undecided":
                r["verdict"] = "undecided"
                undecided.append((h.name, r["reason"]))
            else:
                f = finding_for(findings, prop, h, r["failed"])
                rp = None
                if do_replay:
                    rp = make_replay(ws, prop, h, r, logdir)
                if f is not None:
                    r["verdict"] = "known-finding"
                    known.append((h.name, f, rp))
                else:
                    r["verdict"] = "VIOLATION"
                    violations.append((h.name, r, rp))
        for h in grids:
            r = results[h.name]
            if r["status"] == "pass":
                r["verdict"] = "grid-passed"
            elif r["status"] == "undecided":
                r["verdict"] = "undecided"
                undecided.append((h.name, r["reason"]))
            else:
                f = finding_for(findings, prop, h, r["failed"])
                rp = dict(path=write_replay_file(prop, h.name, dict(property=prop, harness=h.full, backend="native execution of the real code over an enumerated grid (bounded stand-in)",
                          failed_obligations=r["failed"], failing_case=r.get("case"), obligation_text=h.obligations, reproduced=True, native_output=r.get("tail", ""))), reproduced=True)
                if f is not None:
                    r["verdict"] = "known-finding"
                    known.append((h.name, f, rp))
                else:
                    r["verdict"] = "VIOLATION"
                    violations.append((h.name, r, rp))
        for v in verus:
            if v["status"] == "refuted":
                rp = write_replay_file(prop, "verus-" + v["file"], dict(obligation=v["reason"], backend="verus", verifier_output=v.get("output", ""), reproduced=False, note="Verus gives no counterexample"))
                violations.append(("verus:" + v["file"], dict(reason=v["reason"]), dict(path=rp, reproduced=False)))
            elif v["status"] != "pass":
                undecided.append(("verus:" + v["file"], v["reason"]))
    except Undecided as e:
        undecided.append(("setup", str(e)))
    finally:
        if root and not keep:
            shutil.rmtree(root, ignore_errors=True)
    wall = time.time() - t0
    # ---------------- report
    for name, f, rp in known:
        print(f"KNOWN-FINDING: property={prop} {f.get('what', f['text'])} [harness {name}]")
    for name, r, rp in violations:
        tail = "" if (rp and rp.get("reproduced")) else " no-failing-input-found"
        path = rp["path"] if rp else os.path.join(VERIF, "replays", prop, name + ".json")
        print(f"VIOLATION property={prop} replay={path}{tail}")
        log(f"  refuted obligation in {name}: {r.get('reason')}")
    for name, why in undecided:
        log(f"UNDECIDED {prop}/{name}: {why}")
    if write_evidence and not only and not TAG:
        write_evidence_file(prop, tier, seed, harnesses, results, verus, anchors, meta, violations, known, undecided, wall, grids)
    npass = sum(1 for h in harnesses if results.get(h.name, {}).get("verdict") == "discharged")
    log(f"[{prop}/{tier}] peak cbmc RSS {PEAK_RSS.get('kb', 0) / 1048576:.1f} GB")
    log(f"[{prop}/{tier}] harnesses={len(harnesses)} discharged={npass} controls={sum(1 for h in harnesses if results.get(h.name, {}).get('verdict') == 'control-ok')} "
        f"grids={[(g.name, results.get(g.name, {}).get('cases')) for g in grids]} "
        f"known={len(known)} violations={len(violations)} undecided={len(undecided)} verus={[v['status'] for v in verus]} wall={wall:.0f}s")
    if violations:
        return 1
    if undecided:
        return 2
    return 0


def write_replay_file(prop, name, payload):
    d = os.path.join(VERIF, "replays", prop) if not TAG else os.path.join(CACHE, "replays" + TAG, prop)
    os.makedirs(d, exist_ok=True)
    p = os.path.join(d, name + ".json")
    json.dump(payload, open(p, "w"), indent=1)
    return p


def decode_vals(vecs, comments):
    out = []
    for v, c in zip(vecs, comments):
        out.append(dict(bytes=v, as_text=c))
    return out


def make_replay(ws, prop, h, r, logdir):
    failed = [dict(description=c.get("description"), category=c.get("category"), function=c.get("function"),
                   location=c.get("location")) for c in r["failed"]]
    payload = dict(property=prop, harness=h.full, failed_obligations=failed, obligation_text=h.obligations,
                   backend="kani/cbmc", reproduced=False)
    pb, out = concrete_playback(ws, h, logdir)
    payload["verifier_output"] = "\n".join(l for l in out.split("\n") if re.search(r"Failed Checks|File:|VERIFICATION|failed|Check for", l))[-3000:]
    if pb is None:
        payload["note"] = "CBMC produced no concrete trace"
    else:
        vecs, comments = pb
        payload["inputs"] = decode_vals(vecs, comments)
        nat = native_replay(ws, h, vecs, logdir)
        payload["native_replay"] = nat
        wanted = [c.get("description", "").strip('"') for c in r["failed"]]
        msgs = " ".join(p["message"] for p in nat["panics"])
        if nat["ran"] and nat["panics"] and not nat["assumption_violated"]:
            # reproduced iff the native run of the harness body panics (the harness asserts exactly the
            # contract, so any panic on these inputs is the refuted obligation or a panic in real code)
            payload["reproduced"] = True
            payload["reproduced_same_message"] = any(w and w in msgs for w in wanted)
        payload["how_to_replay"] = (f"./check {prop} --replay-harness {h.name}   (re-extracts the overlay, runs `cargo test --lib {h.module}::verif_replay_entry` "
                                    f"with RUSTFLAGS='--cfg verif_replay', VERIF_REPLAY_HARNESS={h.name} and the byte vectors above as VERIF_REPLAY_INPUT)")
    path = write_replay_file(prop, h.name, payload)
    return dict(path=path, reproduced=payload["reproduced"])


def write_evidence_file(prop, tier, seed, harnesses, results, verus, anchors, meta, violations, known, undecided, wall, grids=()):
    complete, bounded, controls, samples = [], [], [], []
    native = []
    for h in grids:
        r = results.get(h.name, {})
        native.append(dict(harness=h.full, backend="native execution on the real code (repository toolchain), enumerated grid - bounded stand-in, NOT a proof", bound=h.bound,
                           cases_executed=r.get("cases", 0), verdict=r.get("verdict"), wall_s=r.get("duration_s"), obligation=h.obligations, reason=r.get("reason", "")))
    obligations = discharged = 0
    solver = 0.0
    for h in harnesses:
        r = results.get(h.name, {})
        entry = dict(harness=h.full, backend="kani 0.68 / cbmc 6.11 (cadical)", kind=h.kind, bound=h.bound, tier=h.tier,
                     verdict=r.get("verdict"), checks=r.get("checks", 0), checks_ok=r.get("ok", 0), covers_satisfied=r.get("covers_ok", 0),
                     solver_s=r.get("solver_s"), symex_s=r.get("symex_s"), wall_s=r.get("duration_s"), obligation=h.obligations,
                     reason=r.get("reason", ""))
        solver += (r.get("solver_s") or 0) + (r.get("symex_s") or 0)
        if h.expect == "fail":
            controls.append(entry)
        elif r.get("verdict") == "known-finding":
            bounded.append(dict(entry, note="refuted on the unchanged tree: listed known finding; not counted"))
        elif h.kind == "complete":
            complete.append(entry)
            obligations += r.get("checks", 0)
            discharged += r.get("ok", 0) if r.get("verdict") in ("discharged",) else min(r.get("ok", 0), max(0, r.get("checks", 0) - 1)) if r.get("checks") else 0
        else:
            bounded.append(entry)
    for v in verus:
        complete.append(dict(harness=v["file"], backend="verus 0.2026.09.13 / z3", kind="complete", verdict="discharged" if v["status"] == "pass" else v["status"],
                             checks=v["verified"] + v["errors"], checks_ok=v["verified"], solver_s=v.get("smt_s"), wall_s=v.get("wall_s"), extraction=v.get("extraction"), reason=v.get("reason", "")))
        obligations += v["verified"] + v["errors"]
        discharged += v["verified"]
    for e in (complete + bounded + native)[:60]:
        for o in e.get("obligation") or []:
            samples.append(f"{e['harness']}: {o}")
    if not samples:
        samples = [e["harness"] for e in complete + bounded][:20]
    level = meta.get("level", "proof")
    cov = dict(
        obligations=obligations, discharged=discharged,
        checker_cmd=f"./check {prop} --tier {tier}  (cargo kani -p trustfall_core -Z function-contracts -Z stubbing --exact --harness <each>; verus <extracted>.rs)",
        trusted_base=["rustc (Kani's pinned nightly) MIR", "kani-compiler 0.68 MIR->GOTO", "CBMC 6.11 + cadical", "Kani's std models"] + (["Verus 0.2026.09.13 + Z3 + vstd"] if verus else []),
        functions_under_contract=anchors,
        complete=complete, bounded=bounded, bounded_native_grids=native, negative_controls=controls,
        samples=samples[:60],
        explanation=meta.get("explanation", "") + " `obligations`/`discharged` count CBMC properties (assertions, panics, overflow, pointer and arithmetic checks) and Verus functions of the *complete* (loop-free full-domain or type-bounded) harnesses only; harnesses under `bounded` carry their bound and are not counted as proved.",
        solver_time_s=round(solver, 2),
        harnesses_total=len(harnesses), harnesses_discharged=sum(1 for h in harnesses if results.get(h.name, {}).get("verdict") == "discharged"),
        undecided=[f"{n}: {w}" for n, w in undecided], known_findings=[f.get("text") for _, f, _ in known],
        not_decided=meta.get("not_decided", []),
        assumption_scan=scan_assumptions(prop),
        exhaustive=False,
    )
    if level != "proof" or obligations == 0:
        level = meta.get("level", "other") if obligations else "other"
        # generic fallback keys
        grid_cases = sum(g.get("cases_executed", 0) or 0 for g in native)
        cov["evaluations"] = max(1, sum(e.get("checks", 0) for e in complete + bounded) + grid_cases)
        cov["distinct_nontrivial"] = max(2, len(complete) + len(bounded) + grid_cases)
        cov["rule"] = ("evaluations = CBMC properties checked by the Kani contract harnesses + cases executed by the native grids; every grid case is a distinct enumerated input "
                       "(an argument tuple, a query text, a schema document, a fault site ...) on which the real code is executed and the contract evaluated, so distinct_nontrivial = grid cases + "
                       "number of Kani harnesses (each harness is one distinct obligation family)")
    ev = dict(property_id=prop, tier=tier, seed=seed, level=level, coverage=cov,
              assumptions=GLOBAL_ASSUMPTIONS + meta.get("assumptions", []), wall_s=round(wall, 1), violations=len(violations))
    os.makedirs(os.path.join(VERIF, "evidence"), exist_ok=True)
    json.dump(ev, open(os.path.join(VERIF, "evidence", f"{prop}.json"), "w"), indent=1)


def main(argv):
    ap = argparse.ArgumentParser()
    ap.add_argument("prop")
    ap.add_argument("--tier", default=os.environ.get("VERIF_TIER", "quick"), choices=["quick", "thorough"])
    ap.add_argument("--harness", action="append")
    ap.add_argument("--keep", action="store_true")
    ap.add_argument("--no-replay", action="store_true")
    ap.add_argument("--repo", default=os.environ.get("VERIF_REPO", "/repo"))
    ap.add_argument("--show-replay", metavar="PATH", help="print a replay file and re-execute it natively on /repo's current tree")
    a = ap.parse_args(argv)
    os.makedirs(CACHE, exist_ok=True)
    if a.prop == "list":
        for d in sorted(os.listdir(CONTRACTS)):
            if d == "common":
                continue
            ovs, _ = load_property(d)
            for o in ovs:
                for h in o.harnesses:
                    print(d, h.tier, h.kind, h.expect, h.full)
        return 0
    if a.prop == "setup":
        return setup(a.repo)
    if a.show_replay:
        return show_replay(a)
    special = os.path.join(CONTRACTS, a.prop, "special.py")
    if os.path.exists(special):
        import importlib.util
        spec = importlib.util.spec_from_file_location("special_" + a.prop, special)
        mod = importlib.util.module_from_spec(spec)
        spec.loader.exec_module(mod)
        return mod.run(a, sys.modules[__name__])
    return check_property(a.prop, a.tier, a.repo, only=a.harness, keep=a.keep, do_replay=not a.no_replay)


def show_replay(a):
    """Re-execute a recorded counterexample / failing grid on the real code of the current tree.
    exit 1 if it still fails (the violation reproduces), 0 if it no longer does, 2 if it cannot be run."""
    rp = json.load(open(a.show_replay))
    print(json.dumps({k: v for k, v in rp.items() if k not in ("native_replay", "verifier_output", "native_output")}, indent=1)[:6000])
    name = (rp.get("harness") or "").split("::")[-1]
    overlays, _ = load_property(a.prop)
    hs = [h for o in overlays for h in o.harnesses if h.name == name]
    if not hs:
        log("replay: harness not found in the overlays (compile-time obligation or renamed harness)")
        return 2
    h = hs[0]
    logdir = os.path.join(CACHE, "logs", f"{a.prop}-replay")
    shutil.rmtree(logdir, ignore_errors=True)
    os.makedirs(logdir)
    try:
        root, ws, _ = make_scratch(a.repo, a.prop, overlays, "-replay")
    except Undecided as e:
        log("replay:", e)
        return 2
    try:
        if h.kind == "native-grid":
            r = run_grids(ws, [h], logdir)[h.name]
            log(f"replay: grid {h.name}: {r['status']} {r.get('reason', '')}")
            return 1 if r["status"] == "refuted" else (0 if r["status"] == "pass" else 2)
        vecs = [i["bytes"] for i in rp.get("inputs", [])]
        if not vecs:
            log("replay: the file carries no concrete inputs (no-failing-input-found)")
            return 2
        nat = native_replay(ws, h, vecs, logdir)
        log("replay: native run:", json.dumps({k: nat[k] for k in ("ran", "rc", "panics", "assumption_violated")}))
        return 1 if (nat["ran"] and nat["panics"] and not nat["assumption_violated"]) else 0
    finally:
        shutil.rmtree(root, ignore_errors=True)


def setup(repo):
    """Warm the dependency caches (kani + native replay). Safe to skip: checks build on demand."""
    os.makedirs(CACHE, exist_ok=True)
    try:
        root, ws, _ = make_scratch(repo, "_setup", [], "")
    except Exception as e:
        log("setup: scratch failed", e)
        return 0
    try:
        rc, out, wall, to, _ = run_cmd(["cargo", "kani", "-p", "trustfall_core", "--only-codegen"], ws, kani_env(), 1800)
        log(f"setup: kani codegen rc={rc} {wall:.0f}s")
        h = Harness("none")
        with NativeTree(ws) as nws:
            rc, out, wall, to, _ = run_cmd(["cargo", "test", "--offline", "-p", "trustfall_core", "--lib", "--no-run"], nws, replay_env(h, "/dev/null"), 1800)
        log(f"setup: native test build rc={rc} {wall:.0f}s")
    finally:
        shutil.rmtree(root, ignore_errors=True)
    # per-property warm-up hooks (contracts/<ID>/special.py: warm)
    for prop in sorted(os.listdir(CONTRACTS)):
        sp = os.path.join(CONTRACTS, prop, "special.py")
        if os.path.exists(sp):
            import importlib.util
            spec = importlib.util.spec_from_file_location("special_" + prop, sp)
            mod = importlib.util.module_from_spec(spec)
            spec.loader.exec_module(mod)
            if hasattr(mod, "warm"):
                try:
                    mod.warm(sys.modules[__name__], repo)
                except Exception as e:
                    log(f"setup: warm-up of {prop} failed: {e}")
    return 0
