#!/bin/bash
# usage: try_mutant.sh <PROP> <patch.diff> [extra check args]  -- apply to /repo, run the check, undo
P=$1; D=$2; shift 2
git -C /repo apply $D || { echo "APPLY FAILED"; exit 9; }
cd /verif && ./check $P "$@"; rc=$?
git -C /repo checkout -- .
echo "check exit=$rc"
exit $rc
