#!/bin/bash
# usage: mutant_run.sh <PROP> <patch.diff> <tag> [check args]
# Runs ./check <PROP> against a scratch copy of /repo with the patch applied (never touches /repo,
# evidence or the committed replays). Prints the verdict line.
P=$1; D=$2; TAGN=$3; shift 3
R=/tmp/mrepo/$TAGN; rm -rf $R; mkdir -p $R
rsync -a --exclude target --exclude .git /repo/ $R/
( cd $R && git init -q . && git apply $D ) || { echo "APPLY FAILED $D"; exit 9; }
cd /verif && VERIF_TAG=-$TAGN ./check $P --repo $R "$@" > /tmp/mrepo/$TAGN.out 2>&1; rc=$?
rm -rf $R
echo "MUTANT $TAGN prop=$P exit=$rc :: $(grep -c '^VIOLATION' /tmp/mrepo/$TAGN.out) violation lines; $(grep -E '^\[|UNDECIDED' /tmp/mrepo/$TAGN.out | tail -2 | tr '\n' ' ')"
