#!/usr/bin/env python3
"""Regenerate /verif/MANIFEST.json from contracts/*/meta.json and tools/not_applicable.json."""
import json, os
V = os.path.dirname(os.path.dirname(os.path.abspath(__file__)))
checks = []
claimed = set()
for d in sorted(os.listdir(os.path.join(V, "contracts"))):
    mp = os.path.join(V, "contracts", d, "meta.json")
    if not os.path.exists(mp):
        continue
    m = json.load(open(mp))
    if m.get("disabled"):
        continue
    claimed.add(d)
    checks.append({
        "property_id": d,
        "quick_cmd": f"./check {d} --tier quick",
        "thorough_cmd": f"./check {d} --tier thorough",
        "evidence_file": f"/verif/evidence/{d}.json",
        "replay_cmd_template": f"./check {d} --show-replay {{path}}",
        "engine": m.get("engine", "overlay+kani"),
        "level_claimed": {"category": m.get("level", "proof"), "text": m["level_text"], "design_ref": m.get("design_ref", "DESIGN.md §3")},
        "level_note": m["level_note"],
        "technique": m["technique"],
    })
na = json.load(open(os.path.join(V, "tools", "not_applicable.json")))
props = [json.loads(l)["id"] for l in open(os.path.join(V, "properties.jsonl"))]
not_app = []
for p in props:
    if p in claimed:
        continue
    not_app.append({"property_id": p, "reason": na.get(p, "not yet brought under contract in this session; see DESIGN.md")})
man = {
    "version": 1,
    "setup_cmd": "./check setup",
    "hooks": {
        "guard": "cfg(kani) / cfg(verif_replay) — overlay modules are appended to a scratch copy of /repo's working tree on every run; /repo itself carries no hook",
        "enable": "checks copy /repo's working tree, append #[cfg(any(kani, verif_replay))] modules from /verif/contracts, and build with `cargo kani` (cfg(kani)) or RUSTFLAGS='--cfg verif_replay' cargo test --lib",
        "baseline_off_cmd": "cd /repo && cargo test --workspace --no-fail-fast --offline",
        "source_commits": [],
        "add_only": True,
    },
    "engines": [
        {"name": "overlay+kani", "path": "/verif/tools/driver.py", "serves_properties": sorted(c["property_id"] for c in checks if c["engine"] == "overlay+kani"),
         "kind_free_text": "mechanical overlay of contract modules onto the real crate; Kani 0.68/CBMC 6.11 function contracts and harness-asserted contracts; Verus on mechanically extracted functions; counterexample replay on the natively compiled real code"},
        {"name": "rustc-obligations", "path": "/verif/contracts/C24/special.py", "serves_properties": sorted(c["property_id"] for c in checks if c["engine"] == "rustc-obligations"),
         "kind_free_text": "auto-trait obligations (Send + Sync) discharged by rustc's trait solver on an overlay module; native concurrent-execution grid as bounded second clause"},
        {"name": "generator+rustc", "path": "/verif/contracts/C26/special.py", "serves_properties": sorted(c["property_id"] for c in checks if c["engine"] == "generator+rustc"),
         "kind_free_text": "bounded stand-in, not contract-based: the real stub generator run on an enumerated schema family, every generated stub compiled offline by the repository toolchain"},
    ],
    "checks": checks,
    "not_applicable": not_app,
    "notes": "exit 0 = all obligations discharged; exit 1 + VIOLATION = an obligation refuted; exit 2 = undecided (lost anchor, timeout, unwinding bound, unsupported construct) and never an alarm. See DESIGN.md.",
}
json.dump(man, open(os.path.join(V, "MANIFEST.json"), "w"), indent=1)
print("claimed:", sorted(claimed))
