"""Mechanical extraction of real function bodies from /repo for single-file Verus runs.

A template (contracts/<ID>/verus/*.rs) is ordinary Verus text with placeholders:

  {{BODY <repo-relative file> <fn name> [occurrence]}}
        replaced by the body of that fn item - the text from its opening brace to the matching
        closing brace, byte for byte (comments included).
  {{ITEM <repo-relative file> <prefix>}}
        replaced by the single line of that file whose stripped text starts with <prefix>
        (used for `const` items), byte for byte minus leading indentation.
  //@orig <repo-relative file> :: <signature>
        asserts that the named fn's signature in the repository (text between `fn` and the opening
        brace, whitespace-normalised) is exactly <signature>; the template's own header - which adds
        the return-value name and the requires/ensures clauses - was written for that signature.

What the extraction changes, and nothing else: (a) the signature line is the template's (same
parameters and types, a named return value, plus requires/ensures/decreases); (b) attributes
(`#[inline]`), doc comments and visibility of the original item are dropped; (c) the item is placed in
the template's `impl`/module instead of the original one. The body is untouched. A placeholder that
cannot be resolved, or a signature that drifted, is a lost anchor (ExtractError -> exit 2).
"""
import os
import re


class ExtractError(Exception):
    pass


def _skip_trivia_and_literals(src, i):
    """If src[i:] starts a comment / string / char literal, return the index just after it, else None."""
    if src.startswith("//", i):
        j = src.find("\n", i)
        return len(src) if j < 0 else j
    if src.startswith("/*", i):
        depth, j = 1, i + 2
        while j < len(src) and depth:
            if src.startswith("/*", j):
                depth += 1; j += 2
            elif src.startswith("*/", j):
                depth -= 1; j += 2
            else:
                j += 1
        return j
    m = re.match(r'b?r(#*)"', src[i:])
    if m:
        end = src.find('"' + m.group(1), i + len(m.group(0)))
        return len(src) if end < 0 else end + 1 + len(m.group(1))
    if src[i] == '"' or src.startswith('b"', i):
        j = i + (2 if src[i] == 'b' else 1)
        while j < len(src):
            if src[j] == '\\':
                j += 2
            elif src[j] == '"':
                return j + 1
            else:
                j += 1
        return j
    if src[i] == "'":
        m = re.match(r"'(\\.[^']*|[^'\\])'", src[i:])
        if m:
            return i + len(m.group(0))
        return i + 1  # a lifetime
    return None


def find_fn(src, name, occurrence=0):
    """-> (sig_text, body_text_with_braces, line_number)"""
    hits = []
    i = 0
    pat = re.compile(r"\bfn\s+" + re.escape(name) + r"\s*[<(]")
    while i < len(src):
        nxt = _skip_trivia_and_literals(src, i)
        if nxt is not None:
            i = nxt
            continue
        m = pat.match(src, i)
        if m and (i == 0 or not (src[i - 1].isalnum() or src[i - 1] == "_")):
            hits.append(i)
            i = m.end()
            continue
        i += 1
    if len(hits) <= occurrence:
        raise ExtractError(f"fn {name} (occurrence {occurrence}) not found")
    start = hits[occurrence]
    # signature: up to the first `{` at paren/bracket depth 0
    j, depth = start, 0
    while j < len(src):
        nxt = _skip_trivia_and_literals(src, j)
        if nxt is not None:
            j = nxt
            continue
        c = src[j]
        if c in "([":
            depth += 1
        elif c in ")]":
            depth -= 1
        elif c == "{" and depth == 0:
            break
        elif c == ";" and depth == 0:
            raise ExtractError(f"fn {name} has no body")
        j += 1
    sig = src[start:j]
    # body: brace matching
    k, bd = j, 0
    while k < len(src):
        nxt = _skip_trivia_and_literals(src, k)
        if nxt is not None:
            k = nxt
            continue
        if src[k] == "{":
            bd += 1
        elif src[k] == "}":
            bd -= 1
            if bd == 0:
                break
        k += 1
    if bd != 0:
        raise ExtractError(f"unbalanced braces in fn {name}")
    return sig, src[j:k + 1], src.count("\n", 0, start) + 1


def _norm(s):
    return re.sub(r"\s+", " ", s).strip().rstrip(",")


def instantiate(template, repo):
    notes = []

    def read(rel):
        p = os.path.join(repo, rel)
        if not os.path.exists(p):
            raise ExtractError(f"{rel} does not exist")
        return open(p).read()

    for m in re.finditer(r"^\s*//@orig\s+(\S+)\s*::\s*(.*)$", template, re.M):
        rel, want = m.group(1), m.group(2)
        name = re.match(r"fn\s+(\w+)", want)
        if not name:
            raise ExtractError(f"bad //@orig line: {m.group(0)}")
        sig, _, line = find_fn(read(rel), name.group(1))
        if _norm(sig) != _norm(want):
            raise ExtractError(f"signature of {name.group(1)} drifted: repo has `{_norm(sig)}`, template was written for `{_norm(want)}`")
        notes.append(f"signature checked: {rel}:{line} {_norm(sig)}")

    def body(m):
        parts = m.group(1).split()
        rel, name = parts[0], parts[1]
        occ = int(parts[2]) if len(parts) > 2 else 0
        sig, b, line = find_fn(read(rel), name, occ)
        notes.append(f"body of fn {name} extracted byte-for-byte from {rel}:{line} ({len(b)} bytes); dropped: attributes, doc comments, visibility, enclosing impl")
        return b

    def item(m):
        rel, prefix = m.group(1).split(None, 1)
        hits = [l for l in read(rel).split("\n") if l.strip().startswith(prefix)]
        if len(hits) != 1:
            raise ExtractError(f"item `{prefix}` found {len(hits)} times in {rel}")
        notes.append(f"item `{prefix}` copied from {rel}")
        return hits[0].strip()

    out = re.sub(r"\{\{BODY ([^}]*)\}\}", body, template)
    out = re.sub(r"\{\{ITEM ([^}]*)\}\}", item, out)
    return out, notes
