"""A5: the parametric argument needs candidates.rs to be free of type-directed tricks."""
import os, re
def run(repo, prop):
    p = os.path.join(repo, "trustfall_core/src/interpreter/hints/candidates.rs")
    if not os.path.exists(p):
        return ["lost anchor: candidates.rs missing"]
    t = open(p).read().split("#[cfg(test)]")[0]
    bad = re.findall(r"\b(TypeId|type_name|dyn Any|Any\b|specialization|transmute|unsafe)\b", t)
    return [f"parametricity assumption A5 no longer evident in candidates.rs: {sorted(set(bad))}"] if bad else []
