#!/usr/bin/env python3
"""usage: write_seeded_meta.py <PROP> <N> <tag> [history text]
Builds seeded/<PROP>-mutN/meta.json from agent_meta.json + confirm_mutant.sh outputs + the mutant_run output /tmp/mrepo/<tag>.out."""
import json, os, re, sys
P, N, tag = sys.argv[1:4]
history = sys.argv[4] if len(sys.argv) > 4 else None
d = f"/verif/seeded/{P}-mut{N}"
a = json.load(open(f"{d}/agent_meta.json"))
rd = lambda f: open(f"{d}/{f}").read().strip() if os.path.exists(f"{d}/{f}") else ""
out = open(f"/tmp/mrepo/{tag}.out").read()
viol = [l for l in out.split("\n") if l.startswith("VIOLATION")]
refuted = sorted(set(re.findall(r"refuted obligation in (\w+)", out))) or ["c26_generated_stub_compiles: " + x for x in re.findall(r"refuted obligation for schema (\S+?):", out)[:6]]
summ = [l for l in out.split("\n") if l.startswith(f"[{P}/") and "harnesses=" in l]
m = {
 "property": P, "summary": a.get("summary"), "needs_to_manifest": a.get("needs_to_manifest"), "files": a.get("files"),
 "base_commit": os.environ.get("SEED_BASE", "HEAD of /repo when the change was written (pinned 5389603 + fix: commits up to 596d428)"),
 "produced_by": "independent sub-agent given only the property text and a scratch worktree",
 "confirmed_here": {"how": rd("how.txt"), "suite_with_change": rd("suite_with.txt"), "demo_with_change": rd("demo_with.txt"),
                    "demo_without_change": rd("demo_without.txt"),
                    "commands": f"tools/confirm_mutant.sh {P} {N} (cargo test -p trustfall_core --offline --lib with the patch; the demonstration with and without the patch)"},
 "check_run": {"command": f"tools/mutant_run.sh {P} seeded/{P}-mut{N}/patch.diff <tag>  (./check {P} --tier quick on a scratch copy of /repo with the patch)",
               "exit": 1 if viol else 0, "violation_lines": len(viol), "refuted_obligations": refuted, "summary": summ[-1] if summ else ""},
 "agent_ran": a.get("ran"),
}
if history: m["history"] = history
json.dump(m, open(f"{d}/meta.json", "w"), indent=1)
print(d, "exit", m["check_run"]["exit"], refuted)
