#!/bin/bash
# usage: regress_seeded.sh [ids...]  -- re-run every recorded seeded change against the current /repo (scratch copies), print one line each
cd /verif
for d in seeded/*/; do
  id=$(basename $d); P=${id%%-*}
  if [ $# -gt 0 ] && ! echo " $* " | grep -q " $P "; then continue; fi
  if ! git -C /repo apply --check /verif/$d/patch.diff 2>/dev/null; then echo "SEEDED $id: patch no longer applies to the current tree (fix commits touched the same lines)"; continue; fi
  tools/mutant_run.sh $P /verif/$d/patch.diff reg-$id --no-replay 2>&1 | tail -1 | cut -c1-160
done
