#!/usr/bin/env python3
import json, sys
pid = sys.argv[1]
for l in open('/verif/properties.jsonl'):
    p = json.loads(l)
    if p['id'] == pid:
        break
print(f"""You are helping test a verification effort for the Rust project obi1kenobi/trustfall (a GraphQL-syntax query engine). You get ONE semantic property of the project and your own scratch git worktree of the repository at /tmp/wt/{pid} (a worktree of /repo at its pinned commit). Work ONLY inside /tmp/wt/{pid} and /tmp/mut/{pid}; never read or touch /verif, and never modify /repo itself.

PROPERTY {pid}: {p['title']}
Statement: {p['statement']}
Quantified over: {p['quantifier']['text']}
Relevant source files (hint): {', '.join(p['anchors']['files'])}

TASK: produce TWO different, realistic code changes (bugs a maintainer could plausibly introduce: an off-by-one, a swapped bound, an inverted condition, a dropped case, a wrong variant wired in, two cooperating sites that each look fine alone ...) to the non-test source of the repository, each of which
  (a) BREAKS the property above,
  (b) still compiles, and
  (c) still passes the ENTIRE existing test suite unchanged (run it: `cd /tmp/wt/{pid} && CARGO_TARGET_DIR=/tmp/wt/{pid}/target cargo test -p trustfall_core --offline 2>&1 | tail -30`; also `-p trustfall` if you touch anything it uses). The network is unavailable: always pass --offline.
Prefer changes that need something specific to manifest (an unusual input such as a boundary integer, a mixed signed/unsigned pair, a null in a particular position, a particular combination of two arguments, a multi-step sequence) rather than ones ordinary use would expose at once. The two changes must be in different functions or break different clauses of the property. Do not edit, delete or weaken existing tests.

For each change i in {{1,2}} write into /tmp/mut/{pid}/:
  - mut{{i}}.diff : `git diff` of the change alone relative to the pinned commit (apply-able with `git apply` at the repo root),
  - mut{{i}}_demo.rs : a small demonstration - a Rust `#[test]` function (or several) that can be appended to an existing test module / placed as an integration test, which FAILS with the change applied and PASSES without it; say in a comment at the top exactly where to put it and how to run it,
  - mut{{i}}.json : {{"property": "{pid}", "summary": "...", "needs_to_manifest": "...", "files": [...], "ran": ["commands you ran and their outcome"]}}.
Verify all three claims yourself (suite passes with the change; demo fails with it; demo passes without it) before finishing, and leave the worktree clean (`git checkout -- .` and remove any untracked files you added) when done. Report briefly what the two changes are.""")
