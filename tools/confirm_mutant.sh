#!/bin/bash
# usage: confirm_mutant.sh <PROP> <N>   -- confirm an agent-produced mutant in its worktree /tmp/wt/<PROP>
# checks: (1) applies and compiles, (2) existing suite of trustfall_core passes with it, (3) demo fails with it, (4) demo passes without it
set -u
P=$1; N=$2; WT=/tmp/wt/$P; M=/tmp/mut/$P
export CARGO_TARGET_DIR=$WT/target CARGO_NET_OFFLINE=true
cd $WT || exit 9
git checkout -q -- . ; git clean -fdq -e target
OUT=/verif/seeded/$P-mut$N; mkdir -p $OUT
cp $M/mut$N.diff $OUT/patch.diff; cp $M/mut${N}_demo.rs $OUT/demo.rs; cp $M/mut$N.json $OUT/agent_meta.json 2>/dev/null
DEMOSRC=$M/mut${N}_demo.rs
if grep -q "trustfall_core/src/[A-Za-z0-9_/]*\.rs" $DEMOSRC && ! grep -q "^use trustfall_core" $DEMOSRC; then
  # in-crate test module: append to the source file named in the header comment
  TARGET=$(grep -o "trustfall_core/src/[A-Za-z0-9_/]*\.rs" $DEMOSRC | head -1)
  MODE=append; LP=$(echo "${P}_mut${N}" | tr 'A-Z' 'a-z')
  if grep -q "fn ${LP}" $DEMOSRC || grep -q "mod ${LP}" $DEMOSRC; then FILTER=$LP; else FILTER=$(grep -o "^mod [a-z0-9_]*" $DEMOSRC | head -1 | cut -d' ' -f2); fi
  place() { cat $DEMOSRC >> $TARGET; }
  run_demo() { cargo test -p trustfall_core --offline --lib $FILTER 2>&1 | grep -E "^test result|error(\[|:)" | head -3; }
else
  MODE=integration
  place() { mkdir -p trustfall_core/tests; cp $DEMOSRC trustfall_core/tests/seeded_demo.rs; }
  run_demo() { cargo test -p trustfall_core --offline --test seeded_demo 2>&1 | grep -E "^test result|error(\[|:)" | head -3; }
fi
echo "mode=$MODE target=${TARGET:-} filter=${FILTER:-}" | tee $OUT/how.txt
git apply $M/mut$N.diff || { echo "APPLY FAILED"; exit 1; }
echo "== suite with change"; cargo test -p trustfall_core --offline --lib 2>&1 | grep -E "^test result|error(\[|:)|FAILED|failed" | head -8 | tee $OUT/suite_with.txt
place
echo "== demo with change (must fail)"; run_demo | tee $OUT/demo_with.txt
git checkout -q -- . ; rm -rf trustfall_core/tests/seeded_demo.rs
place
echo "== demo without change (must pass)"; run_demo | tee $OUT/demo_without.txt
git checkout -q -- . ; git clean -fdq -e target
