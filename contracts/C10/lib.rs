// @target trustfall_core/src/lib.rs
// @module verif_c10
// @cfg all(test, verif_replay)
// @fn trustfall_core/src/frontend/mod.rs::parse
// @fn trustfall_core/src/graphql_query/query.rs::parse_document
//
// "compiling either returns a compiled query or a typed error; it never panics", evaluated natively on
// an enumerated family of documents (not on arbitrary byte strings: the GraphQL parser is third-party
// code outside the verifier's reach, see DESIGN.md C10). Bounded stand-in.
use crate::verif_corpus::schema;
use crate::verif_vk as vk;
use std::collections::BTreeSet;

fn try_compile(text: &str) -> Result<bool, String> { try_compile_on("numbers", text) }
fn try_compile_on(schema_name: &str, text: &str) -> Result<bool, String> {
    let s = schema(schema_name);
    std::panic::catch_unwind(|| crate::frontend::parse(s, text).is_ok())
        .map_err(|p| p.downcast_ref::<String>().cloned().or_else(|| p.downcast_ref::<&str>().map(|s| s.to_string())).unwrap_or_default())
}

// @grid c10_grid_frontend_never_panics tier=quick bound="about 15000 documents: 0..3 operations and fragments; every sequence of up to 3 directives from a 17-element alphabet (valid, duplicated, malformed arguments) on a property, on an edge and on a fold; the repository's parse-error / frontend-error corpora; every kind of field name (property, list property, edge, parameterized edge, __typename, __schema, type name, unknown) x 8 selection shapes x 8 decorations at the root, nested, under a coercion and inside a fold; 22 filter operators x 14 property types x 8 argument forms (variables, tags of 5 types, malformed) on the nullables schema, shared variables, count filters; 18 literal kinds as edge and directive arguments in 6 positions; 12 x 12 pairs of outputs with one name in 3 scopes; filters on a 30-deep list type; 19 fragment-spread / inline-fragment positions x 4 document shapes; 12 erroneous selections alone, before, after and inside a fold next to 6 valid siblings that use an outer tag, and in pairs; 3000 seeded random documents (VERIF_SEED); truncations of valid queries at every byte"
// @ob for every document of the family, compiling against a valid schema returns Ok or Err and does not panic
pub(crate) fn c10_grid_frontend_never_panics() {
    let mut n = 0u64;
    let mut failures = BTreeSet::new();
    let mut check = |label: &str, text: &str, failures: &mut BTreeSet<String>| {
        if let Err(m) = try_compile(text) { failures.insert(format!("{label}: panic({})", m.lines().next().unwrap_or(""))); }
    };
    // 1. document structure
    let op = r#"{ Number(min: 0, max: 3) { value @output } }"#;
    let docs = [
        String::new(), " ".into(), "{".into(), "}".into(), "{}".into(), "query".into(), "query {}".into(), "{ }".into(), "{ Number }".into(), "{ Number(max: 3) }".into(),
        op.to_string(), format!("{op} {op}"), format!("{op} {op} {op}"), format!("query A {op} query B {op}"), format!("query A {op} query B {op} query C {op}"),
        format!("mutation {op}"), format!("subscription {op}"), format!("fragment F on Number {{ value }} {op}"), format!("{op} fragment F on Number {{ value }}"),
        "fragment F on Number { value }".into(), "fragment F on Number { value } fragment G on Number { value }".into(),
        r#"{ Number(max: 3) { ...F } } fragment F on Number { value @output }"#.into(), r#"{ Number(max: 3) { ... on Prime { value @output } } }"#.into(),
        r#"{ Number(max: 3) { ... { value @output } } }"#.into(), r#"{ Number(max: 3) { ... @optional { value @output } } }"#.into(),
        r#"query($x: Int) { Number(max: 3) { value @output } }"#.into(), r#"query Q @fold { Number(max: 3) { value @output } }"#.into(),
        r#"{ Number(max: 3) @fold { value @output } }"#.into(), r#"{ Number(max: 3) @optional { value @output } }"#.into(), r#"{ Number(max: 3) @output { value } }"#.into(),
        r#"{ Number(max: 3) { value @output } Zero { value @output(name: "z") } }"#.into(), r#"{ alias: Number(max: 3) { v: value @output } }"#.into(),
        r#"{ Number(max: $m) { value @output } }"#.into(), r#"{ Number(max: [1]) { value @output } }"#.into(), r#"{ Number(max: {a: 1}) { value @output } }"#.into(), r#"{ Number(max: 3, max: 4) { value @output } }"#.into(),
        r#"{ Number(max: 3) { __typename @output __schema { x } } }"#.into(), r#"{ __typename @output }"#.into(), "{ __typename }".into(), "{ __typename { value @output } }".into(), r#"{ Number(max: 3) { value @output value @output } }"#.into(),
    ];
    for (i, d) in docs.iter().enumerate() { vk::grid_case(format_args!("doc {}", i)); check(&format!("document #{i} `{d}`"), d, &mut failures); n += 1; }
    // 2. directive sequences
    let alphabet = [
        "@output", r#"@output(name: "o")"#, r#"@output(name: 3)"#, r#"@tag"#, r#"@tag(name: "t")"#, "@optional", "@fold", "@recurse(depth: 2)", "@recurse(depth: 0)", "@recurse",
        r#"@transform(op: "count")"#, r#"@transform(op: "bogus")"#, r#"@transform"#, r#"@filter(op: "=", value: ["$x"])"#, r#"@filter(op: ">", value: ["%t"])"#, r#"@filter(op: "is_null")"#, r#"@filter(value: ["$x"])"#,
    ];
    let mut seqs: Vec<String> = vec![String::new()];
    for a in alphabet { seqs.push(a.to_string()); for b in alphabet { seqs.push(format!("{a} {b}")); } }
    let triples: Vec<String> = ["@fold", r#"@transform(op: "count")"#, "@output", r#"@tag(name: "t")"#, r#"@filter(op: ">", value: ["$x"])"#, "@optional"].iter()
        .flat_map(|a| ["@fold", r#"@transform(op: "count")"#, "@output", r#"@tag(name: "t")"#, r#"@filter(op: ">", value: ["$x"])"#, "@optional"].iter().flat_map(move |b|
            ["@fold", r#"@transform(op: "count")"#, "@output", r#"@tag(name: "t")"#, r#"@filter(op: ">", value: ["$x"])"#, "@optional"].iter().map(move |c| format!("{a} {b} {c}")))).collect();
    seqs.extend(triples);
    for s in &seqs {
        vk::grid_case(format_args!("directives `{}`", s));
        check(&format!("property directives `{s}`"), &format!(r#"{{ Number(max: 3) {{ value {s} name @output(name: "nm") }} }}"#), &mut failures);
        check(&format!("edge directives `{s}`"), &format!(r#"{{ Number(max: 3) {{ value @output(name: "v0") successor {s} {{ value @output(name: "sv") }} }} }}"#), &mut failures);
        check(&format!("braceless edge directives `{s}`"), &format!(r#"{{ Number(max: 3) {{ value @output(name: "v0") multiple(max: 2) {s} }} }}"#), &mut failures);
        check(&format!("directives after a fold count `{s}`"), &format!(r#"{{ Number(max: 3) {{ value @output(name: "v0") multiple(max: 2) @fold @transform(op: "count") {s} {{ value @output(name: "mv") }} }} }}"#), &mut failures);
        n += 4;
    }
    // 3. the repository's error corpora and every kind of field name (property, list property, edge, parameterized edge, __typename, __schema, type name, unknown) x 8 selection shapes x 8 decorations at the root, nested, under a coercion and inside a fold; 22 filter operators x 14 property types x 8 argument forms (variables, tags of 5 types, malformed) on the nullables schema, shared variables, count filters; 18 literal kinds as edge and directive arguments in 6 positions; 12 x 12 pairs of outputs with one name in 3 scopes; filters on a 30-deep list type; 19 fragment-spread / inline-fragment positions x 4 document shapes; 12 erroneous selections alone, before, after and inside a fold next to 6 valid siblings that use an outer tag, and in pairs; 3000 seeded random documents (VERIF_SEED); truncations of valid queries
    for dir in ["parse_errors", "frontend_errors"] {
        let mut names: Vec<String> = std::fs::read_dir(format!("test_data/tests/{dir}")).unwrap().filter_map(|e| e.ok()).map(|e| e.file_name().to_string_lossy().to_string()).filter(|n| n.ends_with(".graphql.ron")).collect();
        names.sort();
        for name in names {
            let q: crate::test_types::TestGraphQLQuery = ron::from_str(&std::fs::read_to_string(format!("test_data/tests/{dir}/{name}")).unwrap()).unwrap();
            if q.schema_name != "numbers" { continue; }
            check(&format!("{dir}/{name}"), &q.query, &mut failures); n += 1;
        }
    }
    let valid = r#"{ Number(min: 0, max: 3) { value @output @tag(name: "v") multiple(max: 3) @fold @transform(op: "count") @filter(op: ">", value: ["$x"]) @output(name: "c") { value @filter(op: ">", value: ["%v"]) @output(name: "m") } } }"#;
    for cut in 0..valid.len() { if valid.is_char_boundary(cut) { check(&format!("truncation at byte {cut}"), &valid[..cut], &mut failures); n += 1; } }
    // 3b. fragment spreads and inline fragments in every position
    let frag = "fragment foo on Number { value @output(name: \"fv\") }";
    let spots = [
        "...foo", "... on Prime { ...foo }", "... on Prime { value @output ...foo }", "... { ...foo }", "... { value @output ...foo }", "... on Prime { ... on Prime { ...foo } }",
        "successor { ...foo }", "successor { ... on Prime { ...foo } }", "successor @fold { ...foo }", "successor @optional { ... { ...foo } }", "...foo ...foo", "... on Prime { ...bar }",
        "... on Prime @optional { value @output }", "... on Prime @fold { value @output }", "... @filter(op: \"=\", value: [\"$x\"]) { value @output }", "... on Prime { } ", "... on Prime", "...", "... on { value }",
    ];
    for spot in spots {
        vk::grid_case(format_args!("fragment position `{}`", spot));
        for doc in [format!("{{ Number(max: 3) {{ {spot} }} }} {frag}"), format!("{{ Number(max: 3) {{ {spot} }} }}"), format!("{frag} {{ Number(max: 3) {{ value @output(name: \"v0\") {spot} }} }}"), format!("{{ {spot} }} {frag}")] {
            check(&format!("fragment position `{spot}`"), &doc, &mut failures); n += 1;
        }
    }
    // 3c. every kind of GraphQL literal as an edge argument, on the entry edge and on an inner edge
    let literals = ["FOO", "null", "1.5", "\"s\"", "true", "-1", "99999999999999999999", "-99999999999999999999", "1e400", "[FOO]", "[1, FOO]", "[[1]]", "[]", "{a: FOO}", "{}", "$v", "[$v]", "\"\"\"block\"\"\""];
    for lit in literals {
        vk::grid_case(format_args!("argument literal `{}`", lit));
        check(&format!("entry edge argument {lit}"), &format!("{{ Number(max: {lit}) {{ value @output }} }}"), &mut failures);
        check(&format!("entry edge arguments 1, {lit}"), &format!("{{ Number(min: 1, max: {lit}) {{ value @output }} }}"), &mut failures);
        check(&format!("inner edge argument {lit}"), &format!("{{ Number(max: 2) {{ value @output multiple(max: {lit}) {{ value @output(name: \"m\") }} }} }}"), &mut failures);
        check(&format!("folded edge argument {lit}"), &format!("{{ Number(max: 2) {{ value @output successor {{ multiple(max: {lit}) @fold {{ value @output(name: \"m\") }} }} }} }}"), &mut failures);
        check(&format!("unexpected argument {lit}"), &format!("{{ Number(max: 2) {{ value @output successor(x: {lit}) {{ value @output(name: \"m\") }} }} }}"), &mut failures);
        check(&format!("directive argument {lit}"), &format!("{{ Number(max: 2) {{ value @output(name: {lit}) @tag(name: {lit}) @filter(op: {lit}, value: {lit}) }} }}"), &mut failures);
        n += 6;
    }
    // 3d. the same output name used twice, for every pair of kinds of output and every relative position
    let outs = [
        r#"value @output(name: "x")"#, r#"name @output(name: "x")"#, r#"x: value @output"#,
        r#"multiple(max: 3) @fold @transform(op: "count") @output(name: "x")"#, r#"a: multiple(max: 3) @fold @transform(op: "count") @output(name: "x")"#,
        r#"b: multiple(max: 3) @fold { value @output(name: "x") }"#, r#"predecessor @fold { value @output(name: "x") }"#, r#"predecessor @fold { x: value @output }"#,
        r#"c: multiple(max: 2) @fold { value @fold @transform(op: "count") @output(name: "x") }"#, r#"d: multiple(max: 2) @fold { divisor @fold @transform(op: "count") @output(name: "x") }"#,
        r#"successor { value @output(name: "x") }"#, r#"successor @optional { e: multiple(max: 2) @fold @transform(op: "count") @output(name: "x") }"#,
    ];
    for (i, a) in outs.iter().enumerate() { for (j, b) in outs.iter().enumerate() {
        vk::grid_case(format_args!("duplicate outputs {} {}", i, j));
        let b2 = b.replacen("a:", "a2:", 1).replacen("b:", "b2:", 1).replacen("c:", "c2:", 1).replacen("d:", "d2:", 1).replacen("e:", "e2:", 1);
        check(&format!("duplicate output names `{a}` and `{b2}`"), &format!("{{ Number(max: 2) {{ {a} {b2} }} }}"), &mut failures);
        check(&format!("duplicate output names nested `{a}` and `{b2}`"), &format!("{{ Number(max: 2) {{ successor {{ {a} {b2} }} }} }}"), &mut failures);
        check(&format!("duplicate output names in a fold `{a}` and `{b2}`"), &format!("{{ Number(max: 2) {{ value @output(name: \"v0\") f: multiple(max: 2) @fold {{ {a} {b2} }} }} }}"), &mut failures);
        n += 3;
    } }
    // 3e. list types at the maximum nesting depth the schema accepts
    {
        let mut deep = String::from("Int");
        for _ in 0..30 { deep = format!("[{deep}]"); }
        let text = std::fs::read_to_string("test_data/schemas/numbers.graphql").unwrap();
        let header: String = text.split("type RootSchemaQuery").next().unwrap().to_string();
        let custom = format!("{header}type RootSchemaQuery {{ Thing(ids: [Int]): [Thing!] }}\ntype Thing {{ deep: {deep}  name: String  other(xs: [Int]): [Thing!] }}\n");
        if let Ok(custom) = crate::schema::Schema::parse(&custom) {
            for op in ["=", "!=", "<", "one_of", "not_one_of", "contains", "not_contains", "is_null", "has_prefix", "regex"] {
                for value in [r#", value: ["$x"]"#, r#", value: ["%t"]"#, ""] {
                    vk::grid_case(format_args!("deep list filter {} {}", op, value));
                    let q = format!(r#"{{ Thing {{ deep @tag(name: "t") @output(name: "o0") other {{ deep @filter(op: "{op}"{value}) name @output }} }} }}"#);
                    let outcome = std::panic::catch_unwind(std::panic::AssertUnwindSafe(|| crate::frontend::parse(&custom, q.as_str()).is_ok()));
                    if let Err(p) = outcome {
                        let m = p.downcast_ref::<String>().cloned().or_else(|| p.downcast_ref::<&str>().map(|s| s.to_string())).unwrap_or_default();
                        failures.insert(format!("filter `{op}`{value} on a 30-deep list property: panic({})", m.lines().next().unwrap_or("")));
                    }
                    n += 1;
                }
            }
        }
    }
    // 4. every kind of field name in every position and shape
    let fields = ["value", "name", "vowelsInName", "successor", "multiple(max: 2)", "multiple", "__typename", "__schema", "nonexistent", "Number", "Number(max: 2)", "Zero", "primeFactor", "value(max: 2)"];
    let shapes = ["", "{ value @output }", "{ ... on Prime { value @output } }", "{ ... on Letter { name @output } }", "{ __typename @output }", "{ }", "{ successor { value @output } }", "{ ... on Number { ... on Prime { value @output } } }"];
    let decorations = ["", "@output", "@fold", "@optional", "@recurse(depth: 2)", r#"@tag(name: "t")"#, r#"@filter(op: "=", value: ["$x"])"#, r#"@fold @transform(op: "count") @output"#];
    for f in fields { for sh in shapes { for dec in decorations {
        vk::grid_case(format_args!("field `{}` shape `{}` decoration `{}`", f, sh, dec));
        check(&format!("root field `{f} {dec} {sh}`"), &format!("{{ {f} {dec} {sh} }}"), &mut failures);
        check(&format!("nested field `{f} {dec} {sh}`"), &format!(r#"{{ Number(max: 3) {{ value @output(name: "v0") {f} {dec} {sh} }} }}"#), &mut failures);
        check(&format!("field under a coercion `{f} {dec} {sh}`"), &format!(r#"{{ Number(max: 3) {{ ... on Composite {{ value @output(name: "v0") {f} {dec} {sh} }} }} }}"#), &mut failures);
        check(&format!("field inside a fold `{f} {dec} {sh}`"), &format!(r#"{{ Number(max: 3) {{ value @output(name: "v0") multiple(max: 2) @fold {{ {f} {dec} {sh} }} }} }}"#), &mut failures);
        n += 4;
    } } }
    // 5. every filter operator on every property type with every kind of argument (nullables schema: all scalar and list types)
    let ops = ["=", "!=", "<", "<=", ">", ">=", "contains", "not_contains", "one_of", "not_one_of", "has_prefix", "not_has_prefix", "has_suffix", "not_has_suffix", "has_substring", "not_has_substring", "regex", "not_regex", "is_null", "is_not_null", "bogus", ""];
    let props = ["integer", "nonNullInteger", "float", "nonNullFloat", "string", "nonNullString", "bool", "nonNullBool", "intList", "nonNullIntList", "intNonNullList", "nonNullIntAndList", "neighbor", "__typename"];
    for op in ops { for pr in props {
        vk::grid_case(format_args!("filter op `{}` on `{}`", op, pr));
        for value in [r#", value: ["$x"]"#, r#", value: ["%t"]"#, "", r#", value: ["$x", "$y"]"#, r#", value: []"#, r#", value: ["x"]"#, r#", value: "$x""#, r#", value: ["$x"], extra: 1"#] {
            for tagged in ["integer", "string", "bool", "intList", "float"] {
                if !value.contains("%t") && tagged != "integer" { continue; }
                let q = format!(r#"{{ MainType {{ {tagged} @tag(name: "t") @output(name: "o0") neighbor {{ {pr} @filter(op: "{op}"{value}) @output(name: "o1") }} }} }}"#);
                if let Err(m) = try_compile_on("nullables", &q) { failures.insert(format!("filter `{op}`{value} on {pr} (tag on {tagged}): panic({})", m.lines().next().unwrap_or(""))); }
                n += 1;
            }
        }
        // the same variable used with two operators on two property types
        for op2 in ["=", "<", "contains", "one_of", "has_prefix", "regex"] {
            let q = format!(r#"{{ MainType {{ {pr} @filter(op: "{op}", value: ["$x"]) @output(name: "o0") neighbor {{ string @filter(op: "{op2}", value: ["$x"]) intList @filter(op: "{op2}", value: ["$x"]) @output(name: "o1") }} }} }}"#);
            if let Err(m) = try_compile_on("nullables", &q) { failures.insert(format!("variable shared by `{op}` on {pr} and `{op2}`: panic({})", m.lines().next().unwrap_or(""))); }
            n += 1;
        }
        // count filters
        let q = format!(r#"{{ MainType {{ integer @tag(name: "t") @output(name: "o0") neighborList @fold @transform(op: "count") @filter(op: "{op}", value: ["$x"]) @filter(op: "{op}", value: ["%t"]) {{ {pr} @output(name: "o1") }} }} }}"#);
        if let Err(m) = try_compile_on("nullables", &q) { failures.insert(format!("count filter `{op}` with outputs {pr}: panic({})", m.lines().next().unwrap_or(""))); }
        n += 1;
    } }
    // 6. an erroneous selection followed (or preceded) by siblings that keep using the surrounding state: the frontend
    //    collects several errors per query, so it keeps going after the first one
    let bad = [
        r#"multiple(max: 2) @fold { value @filter(op: ">", value: ["%undefined"]) @output(name: "e1") }"#,
        r#"multiple(max: 2) @fold { name @filter(op: ">", value: ["%t"]) @output(name: "e1") }"#,
        r#"multiple(max: 2) @fold { nonexistent @output }"#,
        r#"multiple(max: 2) @fold { value @output(name: "dup") name @output(name: "dup") }"#,
        r#"multiple(max: 2) @fold { value @output(name: "e1") divisor @fold { value @filter(op: "<", value: ["%undefined"]) @output(name: "e2") } }"#,
        r#"multiple(max: 2) @fold @transform(op: "count") @filter(op: ">", value: ["%undefined"])"#,
        r#"multiple(max: 2) @fold { value @tag(name: "inner") @output(name: "e1") }"#,
        r#"successor @optional { value @filter(op: ">", value: ["%undefined"]) @output(name: "e1") }"#,
        r#"successor @recurse(depth: 2) { nonexistent @output }"#,
        r#"successor { value @filter(op: "has_prefix", value: ["%t"]) @output(name: "e1") }"#,
        r#"multiple { value @output(name: "e1") }"#,
        r#"multiple(max: 2) @fold @optional { value @output(name: "e1") }"#,
    ];
    let good = [
        r#"predecessor @fold { value @filter(op: "<", value: ["%t"]) @output(name: "s1") }"#,
        r#"multiple(max: 3) @fold { value @output(name: "s1") divisor @fold { value @filter(op: "<", value: ["%t"]) @output(name: "s2") } }"#,
        r#"successor { value @filter(op: ">", value: ["%t"]) @output(name: "s1") }"#,
        r#"predecessor @fold @transform(op: "count") @filter(op: ">", value: ["%t"]) @output(name: "s1")"#,
        r#"successor @optional { multiple(max: 2) @fold { value @filter(op: ">", value: ["%t"]) @output(name: "s1") } }"#,
        r#"successor @recurse(depth: 2) { value @filter(op: ">=", value: ["%t"]) @output(name: "s1") }"#,
    ];
    let root = |inner: &str| format!(r#"{{ Number(max: 3) {{ value @tag(name: "t") @output {inner} }} }}"#);
    for (i, b) in bad.iter().enumerate() {
        vk::grid_case(format_args!("erroneous selection #{}", i));
        check(&format!("erroneous selection alone `{b}`"), &root(b), &mut failures); n += 1;
        for g in good {
            check(&format!("erroneous selection `{b}` then `{g}`"), &root(&format!("{b} {g}")), &mut failures);
            check(&format!("`{g}` then erroneous selection `{b}`"), &root(&format!("{g} {b}")), &mut failures);
            check(&format!("erroneous selection `{b}` inside a fold next to `{g}`"), &root(&format!("multiple(max: 2) @fold {{ {b} {g} }}")), &mut failures);
            n += 3;
        }
        for b2 in bad { check(&format!("two erroneous selections `{b}` `{b2}`"), &root(&format!("{b} {}", b2.replace("e1", "f1").replace("e2", "f2").replace("dup", "dup2").replace("inner", "inner2"))), &mut failures); n += 1; }
    }
    // 7. seeded random documents (nested scopes, every decoration and operator; a third deliberately ill-typed)
    let mut accepted = 0u64;
    for (i, d) in crate::verif_random::documents(3000, 10, 35).into_iter().enumerate() {
        if i % 100 == 0 { vk::grid_case(format_args!("random documents {}..", i)); }
        match try_compile(&d.query) { Ok(true) => accepted += 1, Ok(false) => {}, Err(m) => { failures.insert(format!("random document `{}`: panic({})", d.query, m.lines().next().unwrap_or(""))); } }
        n += 1;
    }
    eprintln!("VERIF-GRID-NOTE random documents accepted by the frontend: {accepted} of 3000");
    assert!(accepted >= 300, "vacuity: the random generator produced only {accepted} accepted documents of 3000");
    vk::grid_done("c10_grid_frontend_never_panics", n);
    if !failures.is_empty() {
        // one entry per panic message: how many documents hit it and the first of them
        let mut classes: std::collections::BTreeMap<String, (usize, String)> = Default::default();
        for f in &failures {
            let (label, msg) = f.rsplit_once(": panic(").unwrap_or((f.as_str(), ""));
            let e = classes.entry(msg.trim_end_matches(')').to_string()).or_insert((0, label.to_string()));
            e.0 += 1;
        }
        panic!("the frontend panicked: {{{}}}", classes.into_iter().map(|(m, (c, l))| format!("panic({m}) on {c} documents, first: {l}")).collect::<Vec<_>>().join("; ").replace('"', "'"));
    }
}
