// @target trustfall_core/src/lib.rs
// @module verif_c10
// @cfg all(test, verif_replay)
// @fn trustfall_core/src/frontend/mod.rs::parse
// @fn trustfall_core/src/graphql_query/query.rs::parse_document
//
// "compiling either returns a compiled query or a typed error; it never panics", evaluated natively on
// an enumerated family of documents (not on arbitrary byte strings: the GraphQL parser is third-party
// code outside the verifier's reach, see DESIGN.md C10). Bounded stand-in.
use crate::verif_corpus::schema;
use crate::verif_vk as vk;
use std::collections::BTreeSet;

fn try_compile(text: &str) -> Result<bool, String> {
    let s = schema("numbers");
    std::panic::catch_unwind(|| crate::frontend::parse(s, text).is_ok())
        .map_err(|p| p.downcast_ref::<String>().cloned().or_else(|| p.downcast_ref::<&str>().map(|s| s.to_string())).unwrap_or_default())
}

// @grid c10_grid_frontend_never_panics tier=quick bound="about 6000 documents: 0..3 operations and fragments; every sequence of up to 3 directives from a 17-element alphabet (valid, duplicated, malformed arguments) on a property, on an edge and on a fold; the repository's parse-error / frontend-error corpora; truncations of valid queries at every byte"
// @ob for every document of the family, compiling against a valid schema returns Ok or Err and does not panic
pub(crate) fn c10_grid_frontend_never_panics() {
    let mut n = 0u64;
    let mut failures = BTreeSet::new();
    let mut check = |label: &str, text: &str, failures: &mut BTreeSet<String>| {
        if let Err(m) = try_compile(text) { failures.insert(format!("{label}: panic({})", m.lines().next().unwrap_or(""))); }
    };
    // 1. document structure
    let op = r#"{ Number(min: 0, max: 3) { value @output } }"#;
    let docs = [
        String::new(), " ".into(), "{".into(), "}".into(), "{}".into(), "query".into(), "query {}".into(), "{ }".into(), "{ Number }".into(), "{ Number(max: 3) }".into(),
        op.to_string(), format!("{op} {op}"), format!("{op} {op} {op}"), format!("query A {op} query B {op}"), format!("query A {op} query B {op} query C {op}"),
        format!("mutation {op}"), format!("subscription {op}"), format!("fragment F on Number {{ value }} {op}"), format!("{op} fragment F on Number {{ value }}"),
        "fragment F on Number { value }".into(), "fragment F on Number { value } fragment G on Number { value }".into(),
        r#"{ Number(max: 3) { ...F } } fragment F on Number { value @output }"#.into(), r#"{ Number(max: 3) { ... on Prime { value @output } } }"#.into(),
        r#"{ Number(max: 3) { ... { value @output } } }"#.into(), r#"{ Number(max: 3) { ... @optional { value @output } } }"#.into(),
        r#"query($x: Int) { Number(max: 3) { value @output } }"#.into(), r#"query Q @fold { Number(max: 3) { value @output } }"#.into(),
        r#"{ Number(max: 3) @fold { value @output } }"#.into(), r#"{ Number(max: 3) @optional { value @output } }"#.into(), r#"{ Number(max: 3) @output { value } }"#.into(),
        r#"{ Number(max: 3) { value @output } Zero { value @output(name: "z") } }"#.into(), r#"{ alias: Number(max: 3) { v: value @output } }"#.into(),
        r#"{ Number(max: $m) { value @output } }"#.into(), r#"{ Number(max: [1]) { value @output } }"#.into(), r#"{ Number(max: {a: 1}) { value @output } }"#.into(), r#"{ Number(max: 3, max: 4) { value @output } }"#.into(),
        r#"{ Number(max: 3) { __typename @output __schema { x } } }"#.into(), r#"{ __typename @output }"#.into(), r#"{ Number(max: 3) { value @output value @output } }"#.into(),
    ];
    for (i, d) in docs.iter().enumerate() { vk::grid_case(format_args!("doc {}", i)); check(&format!("document #{i} `{d}`"), d, &mut failures); n += 1; }
    // 2. directive sequences
    let alphabet = [
        "@output", r#"@output(name: "o")"#, r#"@output(name: 3)"#, r#"@tag"#, r#"@tag(name: "t")"#, "@optional", "@fold", "@recurse(depth: 2)", "@recurse(depth: 0)", "@recurse",
        r#"@transform(op: "count")"#, r#"@transform(op: "bogus")"#, r#"@transform"#, r#"@filter(op: "=", value: ["$x"])"#, r#"@filter(op: ">", value: ["%t"])"#, r#"@filter(op: "is_null")"#, r#"@filter(value: ["$x"])"#,
    ];
    let mut seqs: Vec<String> = vec![String::new()];
    for a in alphabet { seqs.push(a.to_string()); for b in alphabet { seqs.push(format!("{a} {b}")); } }
    let triples: Vec<String> = ["@fold", r#"@transform(op: "count")"#, "@output", r#"@tag(name: "t")"#, r#"@filter(op: ">", value: ["$x"])"#, "@optional"].iter()
        .flat_map(|a| ["@fold", r#"@transform(op: "count")"#, "@output", r#"@tag(name: "t")"#, r#"@filter(op: ">", value: ["$x"])"#, "@optional"].iter().flat_map(move |b|
            ["@fold", r#"@transform(op: "count")"#, "@output", r#"@tag(name: "t")"#, r#"@filter(op: ">", value: ["$x"])"#, "@optional"].iter().map(move |c| format!("{a} {b} {c}")))).collect();
    seqs.extend(triples);
    for s in &seqs {
        vk::grid_case(format_args!("directives `{}`", s));
        check(&format!("property directives `{s}`"), &format!(r#"{{ Number(max: 3) {{ value {s} name @output(name: "nm") }} }}"#), &mut failures);
        check(&format!("edge directives `{s}`"), &format!(r#"{{ Number(max: 3) {{ value @output(name: "v0") successor {s} {{ value @output(name: "sv") }} }} }}"#), &mut failures);
        check(&format!("braceless edge directives `{s}`"), &format!(r#"{{ Number(max: 3) {{ value @output(name: "v0") multiple(max: 2) {s} }} }}"#), &mut failures);
        check(&format!("directives after a fold count `{s}`"), &format!(r#"{{ Number(max: 3) {{ value @output(name: "v0") multiple(max: 2) @fold @transform(op: "count") {s} {{ value @output(name: "mv") }} }} }}"#), &mut failures);
        n += 4;
    }
    // 3. the repository's error corpora and truncations of valid queries
    for dir in ["parse_errors", "frontend_errors"] {
        let mut names: Vec<String> = std::fs::read_dir(format!("test_data/tests/{dir}")).unwrap().filter_map(|e| e.ok()).map(|e| e.file_name().to_string_lossy().to_string()).filter(|n| n.ends_with(".graphql.ron")).collect();
        names.sort();
        for name in names {
            let q: crate::test_types::TestGraphQLQuery = ron::from_str(&std::fs::read_to_string(format!("test_data/tests/{dir}/{name}")).unwrap()).unwrap();
            if q.schema_name != "numbers" { continue; }
            check(&format!("{dir}/{name}"), &q.query, &mut failures); n += 1;
        }
    }
    let valid = r#"{ Number(min: 0, max: 3) { value @output @tag(name: "v") multiple(max: 3) @fold @transform(op: "count") @filter(op: ">", value: ["$x"]) @output(name: "c") { value @filter(op: ">", value: ["%v"]) @output(name: "m") } } }"#;
    for cut in 0..valid.len() { if valid.is_char_boundary(cut) { check(&format!("truncation at byte {cut}"), &valid[..cut], &mut failures); n += 1; } }
    vk::grid_done("c10_grid_frontend_never_panics", n);
    if !failures.is_empty() { panic!("the frontend panicked: {{{}}}", failures.into_iter().take(10).collect::<Vec<_>>().join("; ")); }
}
