// @target trustfall_core/src/interpreter/execution.rs
// @module verif_c22
// @fn usize_from_field_value
// @fn get_max_fold_count_limit
// @fn get_min_fold_count_limit
// @fn collect_fold_elements
//
// Contract-mode pre/postcondition on the real `usize_from_field_value`:
// @contract fn usize_from_field_value(field_value: &FieldValue) -> Option<usize> {
// | #[cfg_attr(kani, kani::requires(matches!(field_value, FieldValue::Int64(_) | FieldValue::Uint64(_) | FieldValue::Null)))]
// | #[cfg_attr(kani, kani::ensures(|r: &Option<usize>| *r == match field_value { FieldValue::Int64(i) => Some(if *i < 0 { 0usize } else { *i as usize }), FieldValue::Uint64(u) => Some(*u as usize), _ => None }))]
use super::*;
use super::super::filtering::{equals, greater_than, greater_than_or_equal, less_than, less_than_or_equal, one_of};
use crate::ir::{IRQuery, Type, VariableRef};
use crate::verif_vk as vk;
use std::num::NonZeroUsize;

// @harness c22_contract_usize_from_field_value tier=quick kind=complete
// @ob usize_from_field_value(v) == Some(max(0, num(v))) for every Int64/Uint64, None for null  [kani::requires/ensures on the real fn, proof_for_contract]
#[kani::proof_for_contract(usize_from_field_value)]
pub(crate) fn c22_contract_usize_from_field_value() {
    match vk::any_u8() {
        0 => { let v = FieldValue::Null; assert!(usize_from_field_value(&v).is_none(), "null gives None"); }
        1 => { let i = vk::any_i64(); let v = FieldValue::Int64(i); assert!(usize_from_field_value(&v) == Some(if i < 0 { 0 } else { i as usize }), "Int64 clamps negatives to 0"); }
        _ => { let u = vk::any_u64(); let v = FieldValue::Uint64(u); assert!(usize_from_field_value(&v) == Some(u as usize), "Uint64 is exact"); }
    }
}

// @harness c22_negative_control tier=quick kind=complete expect=fail
// @ob (control) claims usize_from_field_value(Int64(i)) == i as usize for all i: must FAIL (negatives clamp)
#[kani::proof]
pub(crate) fn c22_negative_control() {
    let i = vk::any_i64();
    assert!(usize_from_field_value(&FieldValue::Int64(i)) == Some(i as usize), "control: no clamping (false)");
}

// ---- builders --------------------------------------------------------------------------------
fn one() -> NonZeroUsize { NonZeroUsize::new(1).unwrap() }
fn mk_carrier(args: BTreeMap<Arc<str>, FieldValue>) -> QueryCarrier {
    let root = Arc::new(IRQueryComponent { root: Vid::new(one()), vertices: BTreeMap::new(), edges: BTreeMap::new(), folds: BTreeMap::new(), outputs: BTreeMap::new() });
    let iq = IndexedQuery {
        ir_query: IRQuery { root_name: Arc::from("R"), root_parameters: EdgeParameters::default(), root_component: root, variables: BTreeMap::new() },
        vids: BTreeMap::new(), eids: BTreeMap::new(), outputs: BTreeMap::new(),
    };
    QueryCarrier { query: Some(InterpretedQuery { indexed_query: Arc::new(iq), arguments: Arc::new(args) }) }
}
fn var(name: &str, list: bool) -> Argument {
    let t = if list { Type::new_list_type(Type::new_named_type("Int", false), false) } else { Type::new_named_type("Int", false) };
    Argument::Variable(VariableRef { variable_name: Arc::from(name), variable_type: t })
}
const OPS: [&str; 8] = ["=", "<", "<=", ">", ">=", "one_of", "!=", "not_one_of"];
fn mk_filter(op: &str, name: &str) -> Operation<FoldSpecificFieldKind, Argument> {
    let c = FoldSpecificFieldKind::Count;
    match op {
        "=" => Operation::Equals(c, var(name, false)),
        "<" => Operation::LessThan(c, var(name, false)),
        "<=" => Operation::LessThanOrEqual(c, var(name, false)),
        ">" => Operation::GreaterThan(c, var(name, false)),
        ">=" => Operation::GreaterThanOrEqual(c, var(name, false)),
        "one_of" => Operation::OneOf(c, var(name, true)),
        "!=" => Operation::NotEquals(c, var(name, false)),
        _ => Operation::NotOneOf(c, var(name, true)),
    }
}
fn mk_fold(post_filters: Vec<Operation<FoldSpecificFieldKind, Argument>>) -> IRFold {
    let comp = Arc::new(IRQueryComponent { root: Vid::new(NonZeroUsize::new(2).unwrap()), vertices: BTreeMap::new(), edges: BTreeMap::new(), folds: BTreeMap::new(), outputs: BTreeMap::new() });
    IRFold { eid: Eid::new(one()), from_vid: Vid::new(one()), to_vid: Vid::new(NonZeroUsize::new(2).unwrap()), edge_name: Arc::from("e"), parameters: EdgeParameters::default(),
             component: comp, imported_tags: vec![], fold_specific_outputs: BTreeMap::new(), post_filters }
}
/// The declarative meaning of a count filter: the engine's own operator (C07) on Uint64(count).
fn passes(count: u64, op: &str, arg: &FieldValue) -> bool {
    let c = FieldValue::Uint64(count);
    match op {
        "=" => equals(&c, arg), "<" => less_than(&c, arg), "<=" => less_than_or_equal(&c, arg), ">" => greater_than(&c, arg),
        ">=" => greater_than_or_equal(&c, arg), "one_of" => one_of(&c, arg), "!=" => !equals(&c, arg), _ => !one_of(&c, arg),
    }
}
fn scalar_args() -> Vec<FieldValue> {
    vk::GRID_I64.iter().map(|x| FieldValue::Int64(*x)).chain(vk::GRID_U64.iter().map(|x| FieldValue::Uint64(*x))).chain([FieldValue::Int64(3), FieldValue::Uint64(5)]).collect()
}
fn list_args() -> Vec<FieldValue> {
    let e = |v: Vec<FieldValue>| FieldValue::List(v.into());
    vec![e(vec![]), e(vec![FieldValue::Int64(0)]), e(vec![FieldValue::Int64(-4)]), e(vec![FieldValue::Int64(2), FieldValue::Uint64(7)]), e(vec![FieldValue::Uint64(u64::MAX), FieldValue::Int64(1)]),
         e(vec![FieldValue::Int64(i64::MIN), FieldValue::Int64(-1)]), e(vec![FieldValue::Int64(3), FieldValue::Int64(3), FieldValue::Int64(1)])]
}
fn args_for(op: &str) -> Vec<FieldValue> { if op == "one_of" || op == "not_one_of" { list_args() } else { scalar_args() } }

// @grid c22_grid_fold_count_limits tier=quick bound="1 or 2 count filters from {=,<,<=,>,>=,one_of,!=,not_one_of}; scalar arguments from 19 boundary integers in both representations (negative, zero, > i64::MAX), list arguments from 7 lists; probe counts around the limit and at the extremes"
// @ob get_max_fold_count_limit == Some(m) => every count c > m fails at least one count filter (so discarding folds with more than m elements is invisible)
// @ob get_min_fold_count_limit == Some(n) => every filter is >= or > and for every count c: all filters pass on c <=> all filters pass on min(c, n) (so truncating the fold to n elements does not change the verdict)
pub(crate) fn c22_grid_fold_count_limits() {
    let mut n = 0u64;
    for nf in 1..=2usize { for op1 in OPS { for op2 in OPS { if nf == 1 && op2 != "=" { continue; }
        for a1 in args_for(op1) { for a2 in (if nf == 2 { args_for(op2) } else { vec![FieldValue::Null] }) {
            vk::grid_case(format_args!("filters={} op1={} arg1={:?} op2={} arg2={:?}", nf, op1, a1, op2, a2));
            let mut args = BTreeMap::new();
            args.insert(Arc::from("x"), a1.clone());
            let mut filters = vec![mk_filter(op1, "x")];
            if nf == 2 { args.insert(Arc::from("y"), a2.clone()); filters.push(mk_filter(op2, "y")); }
            let all_pass = |c: u64| passes(c, op1, &a1) && (nf == 1 || passes(c, op2, &a2));
            let fold = mk_fold(filters);
            let mut carrier = mk_carrier(args);
            let max = get_max_fold_count_limit(&mut carrier, &fold);
            let min = get_min_fold_count_limit(&mut carrier, &fold);
            assert!(carrier.query.is_some(), "carrier still holds the query");
            if let Some(m) = max {
                let m = m as u64;
                for c in [m.saturating_add(1), m.saturating_add(2), m.saturating_add(1000), u64::MAX - 1, u64::MAX] {
                    if c > m { assert!(!all_pass(c), "max fold-count limit discards a fold whose count passes the filters"); }
                }
            }
            if let Some(k) = min {
                let k = k as u64;
                assert!(matches!(op1, ">" | ">=") && (nf == 1 || matches!(op2, ">" | ">=")), "min limit only from lower-bound filters");
                for c in [0, 1, 2, k.saturating_sub(1), k, k.saturating_add(1), k.saturating_add(5), u64::MAX] {
                    assert!(all_pass(c) == all_pass(c.min(k)), "truncating the fold to the min limit changes the filter verdict");
                }
            }
            n += 1;
        } }
    } } }
    vk::grid_done("c22_grid_fold_count_limits", n);
}

// @grid c22_grid_collect_fold_elements tier=quick bound="iterators of 0..7 elements; max limit in {None, 0..6}; min limit in {None, 0..6}"
// @ob collect_fold_elements: with max = Some(m): None iff the iterator has more than m elements, otherwise all elements in order; with max = None, min = Some(n): exactly the first min(len, n) elements in order; with both None: all elements; it never pulls more than m+1 (resp. n) elements
pub(crate) fn c22_grid_collect_fold_elements() {
    use std::cell::Cell;
    use std::rc::Rc;
    let mut n = 0u64;
    let lim = |k: usize| if k == 0 { None } else { Some(k - 1) };
    for len in 0..8usize { for mx in 0..8usize { for mn in 0..8usize {
        let (max, min) = (lim(mx), lim(mn));
        vk::grid_case(format_args!("len={} max={:?} min={:?}", len, max, min));
        let pulled = Rc::new(Cell::new(0usize));
        let p2 = pulled.clone();
        let it: ContextIterator<'static, usize> = Box::new((0..len).map(move |i| { p2.set(p2.get() + 1); DataContext::new(Some(i)) }));
        let r = collect_fold_elements(it, &max, &min);
        let ids = r.as_ref().map(|v| v.iter().map(|c| c.active_vertex.unwrap()).collect::<Vec<_>>());
        match (max, min) {
            (Some(m), _) => {
                if len > m { assert!(ids.is_none(), "more than max elements: the fold is discarded"); }
                else { assert!(ids == Some((0..len).collect()), "at most max elements: all of them, in order"); }
                assert!(pulled.get() <= m + 1, "pulled more than max+1 elements");
            }
            (None, Some(k)) => {
                assert!(ids == Some((0..len.min(k)).collect()), "min limit: exactly the first min(len, n) elements");
                assert!(pulled.get() <= k.max(0) + 0 || pulled.get() <= len.min(k), "pulled more than n elements");
            }
            (None, None) => assert!(ids == Some((0..len).collect()), "no limit: all elements, in order"),
        }
        n += 1;
    } } }
    vk::grid_done("c22_grid_collect_fold_elements", n);
}

// ---- Kani: the limit arithmetic for a single count filter, argument over the full integer domain ----
fn single_filter_case(op: &'static str, arg: FieldValue) -> (Option<usize>, Option<usize>) {
    let mut args = BTreeMap::new();
    args.insert(Arc::from("x"), arg);
    let fold = mk_fold(vec![mk_filter(op, "x")]);
    let mut carrier = mk_carrier(args);
    let max = get_max_fold_count_limit(&mut carrier, &fold);
    let min = get_min_fold_count_limit(&mut carrier, &fold);
    core::mem::forget((carrier, fold));
    (max, min)
}
fn int_arg() -> (FieldValue, i128) {
    if vk::any_bool() { let i = vk::any_i64(); (FieldValue::Int64(i), i as i128) } else { let u = vk::any_u64(); (FieldValue::Uint64(u), u as i128) }
}
fn check_limits(max: Option<usize>, min: Option<usize>, pass: &dyn Fn(i128) -> bool, c: i128) {
    if let Some(m) = max {
        assert!(!(c > m as i128) || !pass(c), "max limit: every larger count fails the filters");
    }
    if let Some(k) = min {
        let t = if c < k as i128 { c } else { k as i128 };
        assert!(pass(c) == pass(t), "min limit: truncating the fold to it does not change the filters' verdict");
    }
}
fn sym_int(signed: bool, i: i64, u: u64) -> (FieldValue, i128) {
    if signed { (FieldValue::Int64(i), i as i128) } else { (FieldValue::Uint64(u), u as i128) }
}
macro_rules! single_filter_harness {
    ($name:ident, $op:literal, $pass:expr, $cover_max:literal, $cover_min:literal) => {
        #[kani::proof]
        #[kani::unwind(3)]
        pub(crate) fn $name() {
            let signed = vk::any_bool();
            let (i, u) = (vk::any_i64(), vk::any_u64());
            let x: i128 = if signed { i as i128 } else { u as i128 };
            let (max, min) = if signed { single_filter_case($op, FieldValue::Int64(i)) } else { single_filter_case($op, FieldValue::Uint64(u)) };
            let c = vk::any_u64() as i128;
            verif_cover!(max.is_some() == $cover_max && min.is_some() == $cover_min, "expected kind of limit produced");
            let f: fn(i128, i128) -> bool = $pass;
            check_limits(max, min, &|c| f(c, x), c);
        }
    };
}
// @harness c22_limit_single_lt tier=quick kind=complete timeout=900 unwindset="!memcmp.0=12"
// @ob one count filter `< $x`, x any Int64/Uint64 (negative, zero, > i64::MAX), every count c in 0..2^64: max limit m => (c > m => !(c < x)); min limit n => verdict(c) == verdict(min(c, n))
single_filter_harness!(c22_limit_single_lt, "<", |c, x| c < x, true, false);
// @harness c22_limit_single_le tier=quick kind=complete timeout=900 unwindset="!memcmp.0=12"
// @ob same for `<= $x`
single_filter_harness!(c22_limit_single_le, "<=", |c, x| c <= x, true, false);
// @harness c22_limit_single_eq tier=quick kind=complete timeout=900 unwindset="!memcmp.0=12"
// @ob same for `= $x`
single_filter_harness!(c22_limit_single_eq, "=", |c, x| c == x, true, false);
// @harness c22_limit_single_gt tier=quick kind=complete timeout=900 unwindset="!memcmp.0=12"
// @ob same for `> $x` (min limit x+1, saturating)
single_filter_harness!(c22_limit_single_gt, ">", |c, x| c > x, false, true);
// @harness c22_limit_single_ge tier=quick kind=complete timeout=900 unwindset="!memcmp.0=12"
// @ob same for `>= $x` (min limit x)
single_filter_harness!(c22_limit_single_ge, ">=", |c, x| c >= x, false, true);
// @harness c22_limit_single_ne tier=quick kind=complete timeout=900 unwindset="!memcmp.0=12"
// @ob same for `!= $x` (no limit may be produced)
single_filter_harness!(c22_limit_single_ne, "!=", |c, x| c != x, false, false);

// Pairs of count filters (`< $x` with `<= $y`, `>= $x` with `!= $y`, ...) were attempted as Kani harnesses over full domains, first
// with symbolic signedness (timeout 3000 s), then one harness per signedness combination (timeout 1800 s): CBMC does not finish
// (two BTreeMap<Arc<str>, FieldValue> lookups plus the i128 comparison chain). Pairs are covered only by the bounded native grid
// c22_grid_fold_count_limits (lib.rs), never counted as proved.
