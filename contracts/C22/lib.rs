// @target trustfall_core/src/lib.rs
// @module verif_c22e
// @cfg all(test, verif_replay)
// @fn trustfall_core/src/interpreter/execution.rs::compute_fold
//
// The statement itself as a relation between two executions of the real engine: observing a fold's
// count (as an output) forces full materialization, so a query and the same query with the count
// additionally @output'ed must agree on every other output and on the set of rows. Bounded native
// stand-in over a family of query shapes (the eligibility test for early termination is inline in
// compute_fold and has no function boundary a contract could be attached to).
use crate::ir::FieldValue;
use crate::verif_corpus::{run_numbers, Row, Run};
use crate::verif_vk as vk;
use std::collections::BTreeSet;
use std::sync::Arc;

fn rows_of(label: &str, q: &str, args: &[(&str, FieldValue)], failures: &mut BTreeSet<String>) -> Option<Vec<Row>> {
    match run_numbers(q, args, 10_000) {
        Run::Rows(_, rows) => Some(rows),
        Run::FrontendError(e) => { failures.insert(format!("{label}: harness query rejected by the frontend: {e}")); None }
        Run::ArgumentError(e) => { failures.insert(format!("{label}: harness arguments rejected: {e}")); None }
        Run::Panic(m) => { failures.insert(format!("{label}: panic({})", m.lines().next().unwrap_or(""))); None }
    }
}
fn without(rows: Vec<Row>, drop: &str) -> Vec<Row> {
    rows.into_iter().map(|mut r| { r.remove(drop); r }).collect()
}

// @grid c22_grid_count_observation_invisible tier=quick bound="8 fold shapes (no outputs / outputs only in a nested fold / count tag used by a later vertex, a sibling fold, a sibling fold's count filter / inner filter) x count-filter sets {>=, >, >= & !=, >= & <=, > & <, >= & one_of, = , not_one_of & >=} x arguments 0..4, on numbers 0..12"
// @ob for every query with filters on a fold's count: adding an @output of that count (which forces full materialization) changes neither the set of rows nor any other output
pub(crate) fn c22_grid_count_observation_invisible() {
    let mut n = 0u64;
    let mut failures = BTreeSet::new();
    // (label, text after `@transform(op: "count")` incl. filters is spliced at {F}; {O} is where the observing @output goes)
    let shapes: [(&str, &str); 8] = [
        ("no outputs in fold", r#"{ Number(min: 0, max: 12) { value @output multiple(max: 4) @fold @transform(op: "count") {F} {O} } }"#),
        ("no outputs, braces", r#"{ Number(min: 0, max: 12) { value @output multiple(max: 4) @fold @transform(op: "count") {F} {O} { value } } }"#),
        ("outputs only in a nested fold", r#"{ Number(min: 0, max: 12) { value @output multiple(max: 4) @fold @transform(op: "count") {F} {O} { divisor @fold { value @output(name: "d") } } } }"#),
        ("inner filter, no outputs", r#"{ Number(min: 0, max: 12) { value @output multiple(max: 5) @fold @transform(op: "count") {F} {O} { value @filter(op: ">", value: ["$two"]) } } }"#),
        ("count tag used by a later vertex", r#"{ Number(min: 0, max: 12) { value @output multiple(max: 4) @fold @transform(op: "count") {F} @tag(name: "c") {O} successor { value @filter(op: ">=", value: ["%c"]) } } }"#),
        ("count tag used inside a sibling fold", r#"{ Number(min: 0, max: 12) { value @output multiple(max: 4) @fold @transform(op: "count") {F} @tag(name: "c") {O} predecessor { multiple(max: 6) @fold { value @output(name: "m") @filter(op: "<=", value: ["%c"]) } } } }"#),
        ("count tag used in a sibling fold's count filter", r#"{ Number(min: 0, max: 12) { value @output multiple(max: 4) @fold @transform(op: "count") {F} @tag(name: "c") {O} predecessor { multiple(max: 6) @fold @transform(op: "count") @filter(op: ">=", value: ["%c"]) @output(name: "m") } } }"#),
        ("two folds with count filters", r#"{ Number(min: 0, max: 12) { value @output multiple(max: 4) @fold @transform(op: "count") {F} {O} successor { multiple(max: 3) @fold @transform(op: "count") @filter(op: ">=", value: ["$two"]) } } }"#),
    ];
    let filter_sets: [&[(&str, &str)]; 8] = [
        &[(">=", "a")], &[(">", "a")], &[(">=", "a"), ("!=", "b")], &[(">=", "a"), ("<=", "b")], &[(">", "a"), ("<", "b")], &[(">=", "a"), ("one_of", "l")], &[("=", "a")], &[("not_one_of", "l"), (">=", "a")],
    ];
    for (label, shape) in shapes { for fs in filter_sets { for a in 0..4i64 { for b in [a, a + 1, 3] {
        let filters: String = fs.iter().map(|(op, v)| format!(r#"@filter(op: "{op}", value: ["${v}"])"#)).collect::<Vec<_>>().join(" ");
        let base = shape.replace("{F}", &filters).replace("{O}", "");
        let observed = shape.replace("{F}", &filters).replace("{O}", r#"@output(name: "observed_count")"#);
        let mut args: Vec<(&str, FieldValue)> = vec![("a", FieldValue::Int64(a))];
        if fs.iter().any(|(_, v)| *v == "b") { args.push(("b", FieldValue::Int64(b))); }
        if fs.iter().any(|(_, v)| *v == "l") { args.push(("l", FieldValue::List(vec![FieldValue::Int64(b), FieldValue::Int64(a + 1)].into()))); }
        if shape.contains("$two") { args.push(("two", FieldValue::Int64(2))); }
        let case = format!("{label} | filters {fs:?} a={a} b={b}");
        vk::grid_case(format_args!("{}", case));
        let (Some(r0), Some(r1)) = (rows_of(&case, &base, &args, &mut failures), rows_of(&case, &observed, &args, &mut failures)) else { n += 1; continue; };
        if r0 != without(r1, "observed_count") {
            failures.insert(format!("{label} | filters {:?}: observing the count changes the other outputs or the set of rows", fs.iter().map(|(o, _)| *o).collect::<Vec<_>>()));
        }
        n += 1;
    } } } }
    vk::grid_done("c22_grid_count_observation_invisible", n);
    if !failures.is_empty() { panic!("fold-count early termination is visible: {{{}}}", failures.into_iter().collect::<Vec<_>>().join("; ")); }
}
