// @target trustfall_core/src/lib.rs
// @module verif_c01e
// @cfg all(test, verif_replay)
// @fn trustfall_core/src/interpreter/execution.rs::interpret_ir
// @fn trustfall_core/src/interpreter/execution.rs::compute_component
// @fn trustfall_core/src/interpreter/execution.rs::compute_fold
// @fn trustfall_core/src/interpreter/execution.rs::expand_recursive_edge
//
// "result == spec(arguments)" for whole queries: SPEC is a direct recursive definition of the query
// language's row semantics (written from spec.md / the property statement, independent of the
// engine's pipeline) over the numbers dataset; the real frontend + engine are run on every query of an
// exhaustively enumerated family of query trees and the multiset of rows must equal the spec's.
// Bounded native stand-in (query shapes and dataset are enumerated, not symbolic).
use crate::ir::FieldValue;
use crate::verif_corpus::{run_numbers, Row, Run};
use crate::verif_vk as vk;
use std::collections::{BTreeMap, BTreeSet};
use std::sync::Arc;

use crate::verif_family::*;

// @grid c01_grid_semantics_depth1_and_pairs tier=quick bound="numbers 0..6; every single edge (3 edges x 7 scopes x 4 filters, tags on the root) and every ordered pair of sibling edges drawn from a 20-variant subset"
// @ob the multiset of result rows equals the declarative semantics: edges expand to all neighbours, filters keep exactly the satisfying rows, @optional keeps rows whose edge is missing with null outputs (filters inside pass), @fold yields one aligned list per output (null inside a missing optional) with its count and count filters, @recurse(depth d) yields every vertex reachable in 0..d hops, tags from the root are visible inside folds
pub(crate) fn c01_grid_semantics_depth1_and_pairs() {
    check_family("c01_grid_semantics_depth1_and_pairs", family_depth1_and_pairs(), 0, 6);
}

// @grid c01_grid_semantics_nested tier=quick bound="numbers 0..5; 2-level nestings (27 outer x 80 inner variants; plus every fold/optional outer without an output of its own x 80 inner) and 3-level chains over 8 scope/edge variants"
// @ob same obligation for nested scopes: folds in folds (lists of lists), optionals in folds (null elements), folds under missing optionals (null, not empty), recursion under optionals, count filters and count outputs at inner levels
pub(crate) fn c01_grid_semantics_nested() {
    let leaves = leaf_variants();
    let outers: Vec<Node> = leaves.iter().enumerate().filter(|(i, _)| i % 3 == 0).map(|(_, l)| l.clone()).collect();
    let mut trees: Vec<Vec<Node>> = Vec::new();
    for o in &outers { for i in &leaves { let mut t = o.clone(); t.children = vec![i.clone()]; trees.push(vec![t]); } }
    let small: Vec<Node> = [(Edge::Pred, Scope::Optional), (Edge::Pred, Scope::Fold), (Edge::Succ, Scope::Plain), (Edge::Succ, Scope::FoldCountOut), (Edge::Mult(2), Scope::Fold), (Edge::Mult(2), Scope::FoldCountGe(1)), (Edge::Pred, Scope::Recurse(2)), (Edge::Mult(2), Scope::Optional)]
        .iter().map(|(e, s)| Node { edge: *e, scope: *s, filter: Filt::None, out: true, children: vec![] }).collect();
    for a in &small { for b in &small { for c in &small {
        let mut bb = b.clone(); bb.children = vec![c.clone()];
        let mut aa = a.clone(); aa.children = vec![bb];
        trees.push(vec![aa]);
    } } }
    // scopes whose own vertex has no @output (folds with no outputs of their own, count filters only)
    for o in &leaves { for i in &leaves {
        if !matches!(o.scope, Scope::Fold | Scope::FoldCountGe(_) | Scope::Optional) { continue; }
        let mut t = o.clone(); t.out = false; t.children = vec![i.clone()]; trees.push(vec![t.clone()]);
        let mut i2 = i.clone(); i2.out = false;
        if matches!(i2.scope, Scope::FoldCountOut | Scope::FoldCountGe(_)) { t.children = vec![i2]; trees.push(vec![t]); }
    } }
    check_family("c01_grid_semantics_nested", trees, 0, 5);
}
