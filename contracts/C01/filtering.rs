// @target trustfall_core/src/interpreter/filtering.rs
// @module verif_c01
// @fn apply_filter_op
// @fn apply_unary_filter
use super::*;
use crate::verif_vk as vk;

// @harness c01_apply_filter_op_contract tier=quick kind=complete timeout=900
// @ob apply_filter_op(ctx, f, l, r) for an arbitrary filter closure f: returns the context iff the context is inside a nonexistent @optional scope (no active vertex) or f(l, r) holds; the returned context is the argument ("filters keep exactly the satisfying rows; filters inside a missing optional scope pass")
#[kani::proof]
#[kani::unwind(2)]
pub(crate) fn c01_apply_filter_op_contract() {
    let present = vk::any_bool();
    let answer = vk::any_bool();
    let tag = vk::any_u8();
    let ctx: DataContext<u8> = DataContext::new(if present { Some(tag) } else { None });
    let (l, r) = (FieldValue::Int64(vk::any_i64()), FieldValue::Uint64(vk::any_u64()));
    let f = move |_l: &FieldValue, _r: &FieldValue| answer;
    let out = apply_filter_op(ctx, &f, &l, &r);
    verif_cover!(out.is_some(), "kept");
    verif_cover!(out.is_none(), "dropped");
    assert!(out.is_some() == (!present || answer), "kept iff nonexistent optional or filter true");
    if let Some(c) = &out {
        assert!(c.active_vertex == if present { Some(tag) } else { None }, "the same context is returned");
    }
    core::mem::forget(out);
}

// @harness c01_negative_control tier=quick kind=complete expect=fail
// @ob (control) claims a context with an active vertex always survives a filter: must FAIL
#[kani::proof]
#[kani::unwind(2)]
pub(crate) fn c01_negative_control() {
    let answer = vk::any_bool();
    let ctx: DataContext<u8> = DataContext::new(Some(1));
    let f = move |_l: &FieldValue, _r: &FieldValue| answer;
    let out = apply_filter_op(ctx, &f, &FieldValue::Null, &FieldValue::Null);
    assert!(out.is_some(), "control: filters never drop rows (false)");
    core::mem::forget(out);
}
