// @target trustfall_core/src/interpreter/execution.rs
// @module verif_c01
// @fn EdgeExpander::next
// @fn RecursiveEdgeExpander::next
// @fn unpack_piggyback
// @fn post_process_recursive_expansion
// @fn compute_fold_specific_field_with_separate_value
use super::*;
use crate::verif_vk as vk;
use std::num::NonZeroUsize;

/// A neighbour iterator that may return anything at every call (one call covers every iterator
/// behaviour); it honours the adapter contract "no neighbours for a context without a vertex".
struct Havoc { allowed: bool }
impl Iterator for Havoc {
    type Item = u8;
    fn next(&mut self) -> Option<u8> {
        if self.allowed && vk::any_bool() { Some(vk::any_u8()) } else { None }
    }
}

// @harness c01_edge_expander_step tier=quick kind=complete timeout=900
// @ob EdgeExpander::next, one step from ANY state satisfying the invariant (ended => neighbors_ended; has_neighbors => the context has a vertex), with a havoc neighbour iterator:
// @ob  - ended: returns None and stays ended;  - a neighbour v arrives: returns the context moved to v, sets has_neighbors, does not end ("edges expand to all neighbors", in order)
// @ob  - neighbours exhausted: ends, and returns exactly one extra context without active vertex iff the context had no vertex or (no neighbour was seen and the edge is @optional) ("@optional keeps rows whose edge is missing"); the invariant is preserved
#[kani::proof]
#[kani::unwind(2)]
pub(crate) fn c01_edge_expander_step() {
    let active = if vk::any_bool() { Some(vk::any_u8()) } else { None };
    let (optional, has_neighbors, neighbors_ended, ended) = (vk::any_bool(), vk::any_bool(), vk::any_bool(), vk::any_bool());
    vk::assume(!ended || neighbors_ended);
    vk::assume(!has_neighbors || active.is_some());
    let mut e = EdgeExpander { context: DataContext::new(active), neighbors: Box::new(Havoc { allowed: active.is_some() }), is_optional_edge: optional, has_neighbors, neighbors_ended, ended };
    let out = e.next();
    verif_cover!(out.is_some() && !e.ended, "neighbour step reachable");
    verif_cover!(out.is_some() && e.ended, "null row reachable");
    if ended {
        assert!(out.is_none() && e.ended, "an ended expander yields nothing more");
    } else if !e.ended {
        // a neighbour was produced
        assert!(!neighbors_ended, "neighbours are only pulled before they ended");
        assert!(matches!(&out, Some(c) if c.active_vertex.is_some()), "the row moved to the neighbour");
        assert!(e.has_neighbors && !e.neighbors_ended, "has_neighbors recorded");
    } else {
        // the neighbours ended at this step (or had ended before): decide the extra row
        assert!(e.neighbors_ended, "ended only after the neighbours ended");
        let expect_null_row = active.is_none() || (!has_neighbors && optional);
        assert!(out.is_some() == expect_null_row, "null row exactly for a missing vertex or a missing @optional edge");
        assert!(matches!(&out, None) || matches!(&out, Some(c) if c.active_vertex.is_none()), "the extra row has no active vertex");
    }
    assert!(!e.ended || e.neighbors_ended, "invariant: ended => neighbors_ended");
    assert!(!e.has_neighbors || e.context.active_vertex.is_some(), "invariant: has_neighbors => vertex present");
    assert!(e.context.active_vertex == active && e.is_optional_edge == optional, "frame: the base context and the flag are unchanged");
    core::mem::forget((e, out));
}

// ---- whole sequences: bounded native stand-in ----------------------------------------------------
// @grid c01_grid_edge_expander_sequences tier=quick bound="0..5 neighbours; @optional or not; context with / without an active vertex"
// @ob EdgeExpander yields one row per neighbour, in order, followed by exactly one row without active vertex iff the context had no vertex or the edge is @optional and has no neighbours; then nothing
pub(crate) fn c01_grid_edge_expander_sequences() {
    let mut n = 0u64;
    for k in 0..6usize { for optional in [false, true] { for present in [true, false] {
        if !present && k > 0 { continue; } // adapter contract
        vk::grid_case(format_args!("neighbours={} optional={} vertex_present={}", k, optional, present));
        let ctx: DataContext<usize> = DataContext::new(if present { Some(100) } else { None });
        let got: Vec<Option<usize>> = EdgeExpander::new(ctx, Box::new(0..k), optional).map(|c| c.active_vertex).collect();
        let mut want: Vec<Option<usize>> = (0..k).map(Some).collect();
        if !present || (k == 0 && optional) { want.push(None); }
        assert!(got == want, "edge expansion rows differ from the declarative semantics");
        n += 1;
    } } }
    vk::grid_done("c01_grid_edge_expander_sequences", n);
}

// @grid c01_grid_recursive_expander tier=quick bound="one recursion layer with 0..5 neighbours; context with / without an active vertex"
// @ob one @recurse expansion layer yields the incoming vertex itself followed by one row per neighbour (no row lost or duplicated), every row without piggyback and with its own vertex active again
pub(crate) fn c01_grid_recursive_expander() {
    let mut n = 0u64;
    for k in 0..6usize { for present in [true, false] {
        if !present && k > 0 { continue; }
        vk::grid_case(format_args!("neighbours={} vertex_present={}", k, present));
        let mut ctx: DataContext<usize> = DataContext::new(if present { Some(100) } else { None });
        // calling protocol of expand_recursive_edge: a context without active vertex is marked by a
        // suspended `None` so that the final unsuspend restores it
        if !present { ctx.suspended_vertices.push(None); }
        let raw: ContextIterator<'static, usize> = Box::new(RecursiveEdgeExpander::new(ctx, Box::new(0..k)));
        let rows: Vec<DataContext<usize>> = post_process_recursive_expansion(raw).collect();
        let got: Vec<Option<usize>> = rows.iter().map(|c| c.active_vertex).collect();
        let mut want: Vec<Option<usize>> = vec![if present { Some(100) } else { None }];
        want.extend((0..k).map(Some));
        assert!(got == want, "recursion layer rows differ: every reachable vertex exactly once, the origin first");
        assert!(rows.iter().all(|c| c.piggyback.is_none() && c.suspended_vertices.is_empty()), "no piggyback / suspended vertices left after unpacking");
        n += 1;
    } }
    vk::grid_done("c01_grid_recursive_expander", n);
}

// @grid c01_grid_fold_count_value tier=quick bound="folds of 0..6 elements and a fold inside a nonexistent @optional"
// @ob the fold count is the number of folded elements, and NonexistentOptional (null) - not 0 - when the fold is inside a missing optional scope
pub(crate) fn c01_grid_fold_count_value() {
    let mut n = 0u64;
    let eid = Eid::new(NonZeroUsize::new(1).unwrap());
    for k in 0..8usize {
        vk::grid_case(format_args!("fold_size={}", if k == 7 { "nonexistent".to_string() } else { k.to_string() }));
        let mut ctx: DataContext<usize> = DataContext::new(Some(1));
        ctx.folded_contexts.insert(eid, if k == 7 { None } else { Some((0..k).map(|i| DataContext::new(Some(i))).collect()) });
        let it: ContextIterator<'static, usize> = Box::new(std::iter::once(ctx));
        let mut out = compute_fold_specific_field_with_separate_value(eid, &FoldSpecificFieldKind::Count, it);
        let (_c, v) = out.next().unwrap();
        let want = if k == 7 { TaggedValue::NonexistentOptional } else { TaggedValue::Some(FieldValue::Uint64(k as u64)) };
        assert!(v == want, "fold count value differs");
        assert!(out.next().is_none(), "one value per context");
        n += 1;
    }
    vk::grid_done("c01_grid_fold_count_value", n);
}

// (A Kani step contract for RecursiveEdgeExpander::next in the style of c01_edge_expander_step was tried:
//  the piggyback Vec<DataContext> and the nested context clones do not finish in 10 minutes, so the
//  recursion layer stays with the native sequence grid below.)
