// @target trustfall_core/src/lib.rs
// @module verif_c15
// @cfg all(test, verif_replay)
// @fn trustfall_core/src/interpreter/trace.rs::tap_results
// @fn trustfall_core/src/interpreter/trace.rs::AdapterTap
// @fn trustfall_core/src/interpreter/replay.rs::assert_interpreted_results
//
// record / replay as an inverse pair: replay(deserialize(serialize(record(run)))) == run, and the
// recording run itself == the direct run. The contract ranges over whole executions, so it is
// evaluated natively on the real engine for every numbers query of the corpus. Bounded stand-in.
use crate::interpreter::execution::interpret_ir;
use crate::interpreter::replay::assert_interpreted_results;
use crate::interpreter::trace::{tap_results, AdapterTap, Trace};
use crate::ir::FieldValue;
use crate::numbers_interpreter::{NumbersAdapter, NumbersVertex};
use crate::verif_corpus::{compile, corpus};
use crate::verif_batching::{Batching, SCHEDULES};
use crate::verif_vk as vk;
use std::cell::{Cell, RefCell};
use std::collections::{BTreeMap, BTreeSet};
use std::rc::Rc;
use std::sync::Arc;

// @grid c15_grid_trace_roundtrip tier=quick bound="[+ seeded random accepted documents, VERIF_SEED] every numbers query of the corpus whose arguments are accepted (repository valid queries + extra shapes), at most 400 rows each, each traced from the plain NumbersAdapter and from two read-ahead wrappers of it (chunks of 4; mixed 1..4; first chunk pulled on the first poll); traces serialized to RON (the format the repository stores traces in; JSON cannot represent the tuple-keyed maps inside contexts and is not a supported trace format)"
// @ob executing through the tracing adapter yields the rows of direct execution; the recorded trace, after a serialize/deserialize round trip, replays to exactly those rows without any data source
pub(crate) fn c15_grid_trace_roundtrip() {
    let mut n = 0u64;
    let mut failures = BTreeSet::new();
    for case in crate::verif_corpus::corpus_with_random(100, 15) {
        if case.schema_name != "numbers" { continue; }
        let Some(iq) = compile(&case) else { continue; };
        vk::grid_case(format_args!("{}", case.name));
        let args = Arc::new(case.arguments.clone());
        let Ok(direct) = interpret_ir(Arc::new(NumbersAdapter::new()), iq.clone(), args.clone()) else { continue; };
        let direct: Vec<BTreeMap<Arc<str>, FieldValue>> = direct.take(400).collect();
        let string_args: BTreeMap<String, FieldValue> = case.arguments.iter().map(|(k, v)| (k.to_string(), v.clone())).collect();
        let outcome = std::panic::catch_unwind(std::panic::AssertUnwindSafe(|| {
            let tracer = Rc::new(RefCell::new(Trace::new(iq.ir_query.clone(), string_args.clone())));
            let mut tap = Arc::new(AdapterTap::new(NumbersAdapter::new(), tracer));
            let traced: Vec<_> = tap_results(tap.clone(), interpret_ir(tap.clone(), iq.clone(), args.clone()).expect("accepted")).take(400).collect();
            assert!(traced == direct, "executing through the tracing adapter changed the rows");
            let complete = traced.len() < 400;
            let trace: Trace<NumbersVertex> = Arc::make_mut(&mut tap).clone().finish();
            let via_ron: Trace<NumbersVertex> = ron::from_str(&ron::to_string(&trace).expect("trace serializes")).expect("trace deserializes");
            assert!(via_ron == trace, "RON round trip changed the trace");
            assert_interpreted_results(&via_ron, &direct, complete);
        }));
        if let Err(p) = outcome {
            let m = p.downcast_ref::<String>().cloned().or_else(|| p.downcast_ref::<&str>().map(|s| s.to_string())).unwrap_or_default();
            failures.insert(format!("{}: {}", case.name, m.lines().next().unwrap_or("")));
        }
        n += 1;
        // the same inverse pair when the traced data source reads ahead (several inputs pulled before an output)
        for schedule in [SCHEDULES[1], SCHEDULES[2]] {
            let outcome = std::panic::catch_unwind(std::panic::AssertUnwindSafe(|| {
                let source = || Batching { inner: NumbersAdapter::new(), sizes: Rc::new(Cell::new(schedule)), call_time: false };
                let direct: Vec<BTreeMap<Arc<str>, FieldValue>> = interpret_ir(Arc::new(source()), iq.clone(), args.clone()).expect("accepted").take(400).collect();
                let tracer = Rc::new(RefCell::new(Trace::new(iq.ir_query.clone(), string_args.clone())));
                let mut tap = Arc::new(AdapterTap::new(source(), tracer));
                let traced: Vec<_> = tap_results(tap.clone(), interpret_ir(tap.clone(), iq.clone(), args.clone()).expect("accepted")).take(400).collect();
                assert!(traced == direct, "executing through the tracing adapter changed the rows (read-ahead source)");
                let complete = traced.len() < 400;
                let trace: Trace<NumbersVertex> = Arc::make_mut(&mut tap).clone().finish();
                let via_ron: Trace<NumbersVertex> = ron::from_str(&ron::to_string(&trace).expect("trace serializes")).expect("trace deserializes");
                assert!(via_ron == trace, "RON round trip changed the trace (read-ahead source)");
                assert_interpreted_results(&via_ron, &direct, complete);
            }));
            if let Err(p) = outcome {
                let m = p.downcast_ref::<String>().cloned().or_else(|| p.downcast_ref::<&str>().map(|s| s.to_string())).unwrap_or_default();
                failures.insert(format!("{} (read-ahead source {schedule:#x}): {}", case.name, m.lines().next().unwrap_or("")));
            }
            n += 1;
        }
    }
    vk::grid_done("c15_grid_trace_roundtrip", n);
    if !failures.is_empty() { panic!("trace record/replay round trip failures: {{{}}}", failures.into_iter().take(8).collect::<Vec<_>>().join("; ")); }
}


// @grid c15_grid_trace_roundtrip_call_time_prefetch tier=quick bound="[+ seeded random accepted documents, VERIF_SEED] every numbers query of the corpus, traced from a read-ahead wrapper of NumbersAdapter whose resolvers pull their first chunk (4 contexts) inside the resolve_* call, before returning the iterator; at most 400 rows"
// @ob the trace of a data source that pulls input contexts during the resolver call itself replays to the rows of direct execution
pub(crate) fn c15_grid_trace_roundtrip_call_time_prefetch() {
    let mut n = 0u64;
    let mut failed: Vec<String> = Vec::new();
    let mut other = BTreeSet::new();
    for case in crate::verif_corpus::corpus_with_random(100, 15) {
        if case.schema_name != "numbers" { continue; }
        let Some(iq) = compile(&case) else { continue; };
        vk::grid_case(format_args!("{}", case.name));
        let args = Arc::new(case.arguments.clone());
        if interpret_ir(Arc::new(NumbersAdapter::new()), iq.clone(), args.clone()).is_err() { continue; }
        let string_args: BTreeMap<String, FieldValue> = case.arguments.iter().map(|(k, v)| (k.to_string(), v.clone())).collect();
        let source = || Batching { inner: NumbersAdapter::new(), sizes: Rc::new(Cell::new(SCHEDULES[1])), call_time: true };
        // recording must be transparent and serializable in any case
        let recorded = std::panic::catch_unwind(std::panic::AssertUnwindSafe(|| {
            let direct: Vec<BTreeMap<Arc<str>, FieldValue>> = interpret_ir(Arc::new(source()), iq.clone(), args.clone()).expect("accepted").take(400).collect();
            let tracer = Rc::new(RefCell::new(Trace::new(iq.ir_query.clone(), string_args.clone())));
            let mut tap = Arc::new(AdapterTap::new(source(), tracer));
            let traced: Vec<_> = tap_results(tap.clone(), interpret_ir(tap.clone(), iq.clone(), args.clone()).expect("accepted")).take(400).collect();
            assert!(traced == direct, "executing through the tracing adapter changed the rows");
            let trace: Trace<NumbersVertex> = Arc::make_mut(&mut tap).clone().finish();
            let via_ron: Trace<NumbersVertex> = ron::from_str(&ron::to_string(&trace).expect("trace serializes")).expect("trace deserializes");
            assert!(via_ron == trace, "RON round trip changed the trace");
            (via_ron, direct)
        }));
        match recorded {
            Err(_) => { other.insert(format!("recording failed: {}", case.name)); }
            Ok((trace, direct)) => {
                let complete = direct.len() < 400;
                if std::panic::catch_unwind(std::panic::AssertUnwindSafe(|| assert_interpreted_results(&trace, &direct, complete))).is_err() { failed.push(case.name.clone()); }
            }
        }
        n += 1;
    }
    vk::grid_done("c15_grid_trace_roundtrip_call_time_prefetch", n);
    if !other.is_empty() { panic!("tracing a call-time prefetching source failed: {{{}}}", other.into_iter().take(8).collect::<Vec<_>>().join("; ")); }
    if !failed.is_empty() {
        let digest = failed.join(",").bytes().fold(0xcbf29ce484222325u64, |h, b| (h ^ b as u64).wrapping_mul(0x100000001b3));
        panic!("traces of a source that pulls inputs inside the resolver call do not replay: {{{} of {} queries, first {}, last {}, digest {:016x}}}", failed.len(), n, failed[0], failed[failed.len() - 1], digest);
    }
}
