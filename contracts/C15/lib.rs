// @target trustfall_core/src/lib.rs
// @module verif_c15
// @cfg all(test, verif_replay)
// @fn trustfall_core/src/interpreter/trace.rs::tap_results
// @fn trustfall_core/src/interpreter/trace.rs::AdapterTap
// @fn trustfall_core/src/interpreter/replay.rs::assert_interpreted_results
//
// record / replay as an inverse pair: replay(deserialize(serialize(record(run)))) == run, and the
// recording run itself == the direct run. The contract ranges over whole executions, so it is
// evaluated natively on the real engine for every numbers query of the corpus. Bounded stand-in.
use crate::interpreter::execution::interpret_ir;
use crate::interpreter::replay::assert_interpreted_results;
use crate::interpreter::trace::{tap_results, AdapterTap, Trace};
use crate::ir::FieldValue;
use crate::numbers_interpreter::{NumbersAdapter, NumbersVertex};
use crate::verif_corpus::{compile, corpus};
use crate::verif_vk as vk;
use std::cell::RefCell;
use std::collections::{BTreeMap, BTreeSet};
use std::rc::Rc;
use std::sync::Arc;

// @grid c15_grid_trace_roundtrip tier=quick bound="every numbers query of the corpus whose arguments are accepted (repository valid queries + extra shapes), at most 400 rows each; traces serialized to RON (the format the repository stores traces in; JSON cannot represent the tuple-keyed maps inside contexts and is not a supported trace format)"
// @ob executing through the tracing adapter yields the rows of direct execution; the recorded trace, after a serialize/deserialize round trip, replays to exactly those rows without any data source
pub(crate) fn c15_grid_trace_roundtrip() {
    let mut n = 0u64;
    let mut failures = BTreeSet::new();
    for case in corpus() {
        if case.schema_name != "numbers" { continue; }
        let Some(iq) = compile(&case) else { continue; };
        vk::grid_case(format_args!("{}", case.name));
        let args = Arc::new(case.arguments.clone());
        let Ok(direct) = interpret_ir(Arc::new(NumbersAdapter::new()), iq.clone(), args.clone()) else { continue; };
        let direct: Vec<BTreeMap<Arc<str>, FieldValue>> = direct.take(400).collect();
        let string_args: BTreeMap<String, FieldValue> = case.arguments.iter().map(|(k, v)| (k.to_string(), v.clone())).collect();
        let outcome = std::panic::catch_unwind(std::panic::AssertUnwindSafe(|| {
            let tracer = Rc::new(RefCell::new(Trace::new(iq.ir_query.clone(), string_args.clone())));
            let mut tap = Arc::new(AdapterTap::new(NumbersAdapter::new(), tracer));
            let traced: Vec<_> = tap_results(tap.clone(), interpret_ir(tap.clone(), iq.clone(), args.clone()).expect("accepted")).take(400).collect();
            assert!(traced == direct, "executing through the tracing adapter changed the rows");
            let complete = traced.len() < 400;
            let trace: Trace<NumbersVertex> = Arc::make_mut(&mut tap).clone().finish();
            let via_ron: Trace<NumbersVertex> = ron::from_str(&ron::to_string(&trace).expect("trace serializes")).expect("trace deserializes");
            assert!(via_ron == trace, "RON round trip changed the trace");
            assert_interpreted_results(&via_ron, &direct, complete);
        }));
        if let Err(p) = outcome {
            let m = p.downcast_ref::<String>().cloned().or_else(|| p.downcast_ref::<&str>().map(|s| s.to_string())).unwrap_or_default();
            failures.insert(format!("{}: {}", case.name, m.lines().next().unwrap_or("")));
        }
        n += 1;
    }
    vk::grid_done("c15_grid_trace_roundtrip", n);
    if !failures.is_empty() { panic!("trace record/replay round trip failures: {{{}}}", failures.into_iter().take(8).collect::<Vec<_>>().join("; ")); }
}
