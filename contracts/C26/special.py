"""C26: bounded stand-in. The acceptance criterion of the property is "rustc accepts the generated crate
(including its tests)"; no contract on the stubgen functions can express that, so the statement itself is
evaluated: the real generator (built from /repo's working tree) is run on an enumerated family of valid
schemas and every generated stub is compiled, tests included, against the working tree's `trustfall` crate
with the repository toolchain, offline (the repository's Cargo.lock is copied next to the generated crate so
that dependency resolution needs no index). Nothing is proved; level `other`, labelled bounded.

Outcome classes per schema:
  compiled            generator exit 0 and `cargo test --no-run` accepts the stub            -> holds
  refused             generator panics with its documented refusal "cannot generate adapter for a schema
                      containing both ..." (pinned by #[should_panic] tests of the repository)   -> no stub, holds
  rejected            Schema::parse returned an error (generator exit 1): not a valid schema  -> not counted
  generator-failed    any other generator panic (not inside Schema::parse)                    -> VIOLATION
  does-not-compile    generator exit 0 but rustc rejects the stub                             -> VIOLATION
"""
import fcntl, json, os, re, shutil, subprocess, time

HEADER = """schema {
    query: RootSchemaQuery
}
directive @filter(op: String!, value: [String!]) repeatable on FIELD | INLINE_FRAGMENT
directive @tag(name: String) repeatable on FIELD
directive @output(name: String) repeatable on FIELD
directive @optional on FIELD
directive @recurse(depth: Int!) on FIELD
directive @fold on FIELD
directive @transform(op: String!) repeatable on FIELD

"""

STRICT = ["as", "break", "const", "continue", "crate", "else", "enum", "extern", "false", "fn", "for", "if", "impl", "in", "let", "loop",
          "match", "mod", "move", "mut", "pub", "ref", "return", "self", "Self", "static", "struct", "super", "trait", "true", "type",
          "unsafe", "use", "where", "while", "async", "await", "dyn"]
RESERVED = ["abstract", "become", "box", "do", "final", "macro", "override", "priv", "typeof", "unsized", "virtual", "yield", "try", "gen"]
WEAK = ["macro_rules", "union", "raw", "safe", "auto", "default"]
PRELUDE = ["Vertex", "Adapter", "Option", "Vec", "Str", "Box", "Arc", "Result", "Some", "None", "Ok", "Err", "Self_", "FieldValue", "Iterator", "Typename"]
LOCALS = ["contexts", "resolve_info", "property_name", "edge_name", "parameters", "vertex", "value", "adapter", "schema", "type_name",
          "coerce_to_type", "self_", "_resolve_info", "_", "__typename_", "r", "x1", "a_", "entrypoints", "properties", "edges", "tests", "super_"]
SCALARS = ["Int", "Float", "String", "Boolean"]
SHAPES = ["{T}", "{T}!", "[{T}]", "[{T}!]", "[{T}]!", "[{T}!]!", "[[{T}]]", "[[{T}!]!]!"]
VARIANTS_QUICK = ["FooBar", "fooBar", "foo_bar", "Foo_bar", "FOO_BAR", "foobar", "foo_bar_"]
VARIANTS_MORE = ["Foo_Bar", "FooBAR", "_fooBar", "foo__bar", "fooBar_", "FOOBar"]


def schema(entrypoints, types):
    return HEADER + "type RootSchemaQuery {\n" + "".join(f"    {e}\n" for e in entrypoints) + "}\n\n" + "\n".join(types) + "\n"


def ty(name, fields, kind="type", implements=None):
    imp = f" implements {' & '.join(implements)}" if implements else ""
    return f"{kind} {name}{imp} {{\n" + "".join(f"    {f}\n" for f in fields) + "}\n"


def family(tier):
    fam = []
    add = lambda n, s: fam.append((n, s))
    # scalars x modifier shapes, as properties, entrypoint parameters and edge parameters
    for T in SCALARS:
        props = [f"p{i}: {s.format(T=T)}" for i, s in enumerate(SHAPES)]
        params = ", ".join(f"a{i}: {s.format(T=T)}" for i, s in enumerate(SHAPES))
        add(f"scalars_{T}", schema([f"Start({params}): [V!]!", "One: V"], [ty("V", props + [f"next({params}): [V!]", "other: V!"])]))
    add("scalar_ID_property", schema(["Start: [V!]"], [ty("V", ["id: ID", "ids: [ID!]!"])]))
    add("scalar_ID_parameter", schema(["Start(id: ID!): [V!]"], [ty("V", ["name: String", "byId(id: ID): V"])]))
    add("defaults", schema(['Start(a: Int = 5, b: String = "x", c: Boolean = true, d: Float = 1.5, e: [Int!] = [1, 2], f: Int = null, g: String! = "q"): [V!]'],
                           [ty("V", ["name: String", 'next(a: Int! = 5, b: [String] = ["x", null], c: Boolean! = false): [V!]!'])]))
    # structure
    add("interfaces", schema(["Start: [Named!]", "Leaf: B"], [ty("Named", ["name: String", "peer: Named"], "interface"),
                                                                ty("A", ["name: String", "peer: Named", "a: Int"], implements=["Named"]),
                                                                ty("Mid", ["name: String", "peer: Named", "m: Int"], "interface", ["Named"]),
                                                                ty("B", ["name: String", "peer: A", "m: Int", "b: [Int]", "up: Mid"], implements=["Mid", "Named"])]))
    add("no_properties", schema(["Start: [V!]"], [ty("V", ["next: V"])]))
    add("no_edges", schema(["Start: [V!]"], [ty("V", ["name: String"])]))
    add("edge_cardinalities", schema(["A: V", "B: V!", "C: [V]", "D: [V!]", "E: [V]!", "F: [V!]!"], [ty("V", ["name: String", "a: V", "b: V!", "c: [V]", "d: [V!]", "e: [V]!", "f: [V!]!"])]))
    add("many_types", schema([f"T{i}: [T{i}!]" for i in range(12)], [ty(f"T{i}", [f"p{i}: Int", f"to{(i + 1) % 12}: T{(i + 1) % 12}"]) for i in range(12)]))
    add("single_letter_names", schema(["a: [a!]", "B(c: Int): b"], [ty("a", ["b: Int", "c(d: Int): b"]), ty("b", ["a: Int", "d: a"])]))
    add("digits_and_underscores", schema(["Start2_(x_1: Int): [T_2!]"], [ty("T_2", ["p_3_: Int", "e4__x(y5: Int): T_2", "_q: String"]), ty("_U", ["_: Int", "t: T_2"])]))
    add("type_named_like_its_field", schema(["item: [item!]"], [ty("item", ["item: Int", "items: item"])]))
    add("entrypoint_named_like_type_and_field", schema(["V: [V!]", "name: V"], [ty("V", ["name: String", "V: V"])]))
    # names that meet generated identifiers
    for n in PRELUDE:
        add(f"type_named_{n}", schema([f"Start: [{n}!]"], [ty(n, ["name: String", f"next: {n}"])]))
    for n in LOCALS:
        add(f"fields_named_{n}", schema([f"Start({n}: Int): [V!]", f"{n}: V" if re.match(r"[A-Za-z]", n) else "Other: V"], [ty("V", [f"{n}: Int", "name: String"]), ty("W", [f"{n}({n}: String): V", "w: Int"])]))
    # Rust keywords (strict, reserved for future use, weak) as type, property, edge, parameter and entrypoint names
    for kw in STRICT + RESERVED + WEAK:
        add(f"kw_type_{kw}", schema([f"Start: [{kw}!]"], [ty(kw, ["name: String", f"next: {kw}"])]))
        add(f"kw_property_{kw}", schema(["Start: [V!]"], [ty("V", [f"{kw}: Int", "name: String"])]))
        add(f"kw_edge_and_parameter_{kw}", schema(["Start: [V!]"], [ty("V", ["name: String", f"{kw}({kw}: Int): V"])]))
        add(f"kw_entrypoint_{kw}", schema([f"{kw}({kw}: Int): [V!]"], [ty("V", ["name: String"])]))
        if kw[0].islower() and kw.capitalize() != kw:
            # names that only become a keyword after the generator changes their case
            K = kw.capitalize()
            add(f"kw_capitalized_type_{K}", schema([f"Start: [{K}!]"], [ty(K, ["name: String", f"next: {K}", f"more(x: Int): [{K}!]"])]))
            add(f"kw_capitalized_fields_{K}", schema([f"{K}({K}: Int): [V!]"], [ty("V", [f"{K}: Int", "name: String"]), ty("W", [f"{K}({K}: String): V", "w: Int"])]))
    # names that differ only in case or underscores
    names = VARIANTS_QUICK + (VARIANTS_MORE if tier == "thorough" else [])
    for i, a in enumerate(names):
        for b in names[i + 1:]:
            add(f"two_types_{a}_{b}", schema([f"Start: [{a}!]", f"Other: {b}"], [ty(a, ["name: String", f"to: {b}"]), ty(b, ["name: String", f"to: {a}"])]))
            add(f"two_properties_{a}_{b}", schema(["Start: [V!]"], [ty("V", [f"{a}: Int", f"{b}: String"])]))
            add(f"two_entrypoints_{a}_{b}", schema([f"{a}: [V!]", f"{b}(x: Int): V"], [ty("V", ["name: String"])]))
            add(f"two_parameters_{a}_{b}", schema([f"Start({a}: Int, {b}: String): [V!]"], [ty("V", ["name: String", f"next({a}: Int, {b}: Int): V"])]))
            if tier == "thorough":
                add(f"two_edges_{a}_{b}", schema(["Start: [V!]"], [ty("V", ["name: String", f"{a}: V", f"{b}(x: Int): [V!]"])]))
                add(f"property_and_edge_{a}_{b}", schema(["Start: [V!]"], [ty("V", [f"{a}: Int", f"{b}: V"])]))
                add(f"type_and_property_of_other_type_{a}_{b}", schema([f"Start: [{a}!]"], [ty(a, ["name: String", "w: W"]), ty("W", [f"{b}: Int", f"to_{b}: {a}"])]))
    return fam


def run(a, d):
    t0 = time.time()
    prop, tier, repo = "C26", a.tier, a.repo
    _, meta = d.load_property(prop)
    logdir = os.path.join(d.CACHE, "logs", f"{prop}-{tier}{d.TAG}")
    shutil.rmtree(logdir, ignore_errors=True)
    os.makedirs(logdir)
    undecided, violations, known = [], [], []
    outcome = {}          # name -> (class, detail)
    fam = family(tier)
    texts = dict(fam)
    base = os.path.join(d.SCRATCH_ROOT, "c26")
    os.makedirs(base, exist_ok=True)
    env = dict(os.environ, CARGO_NET_OFFLINE="true", CARGO_TARGET_DIR=os.path.join(d.CACHE, "target-c26"), RUST_BACKTRACE="0")
    env.pop("RUSTFLAGS", None)
    lock = open(os.path.join(d.SCRATCH_ROOT, "c26.lock"), "w")
    fcntl.flock(lock, fcntl.LOCK_EX)
    compile_rounds = 0
    try:
        ws, gen = os.path.join(base, "ws"), os.path.join(base, "gen")
        for need in ("trustfall_stubgen/src/root.rs", "trustfall_stubgen/src/util.rs", "trustfall/Cargo.toml", "Cargo.lock"):
            if not os.path.exists(os.path.join(repo, need)):
                raise d.Undecided(f"lost anchor: {need} does not exist")
        subprocess.check_call(["rsync", "-rl", "--checksum", "--delete", "--exclude", "/target", "--exclude", ".git", repo.rstrip("/") + "/", ws + "/"])
        rc, out, wall, to, _ = d.run_cmd(["cargo", "build", "--offline", "-p", "trustfall_stubgen"], ws, env, 2400)
        open(os.path.join(logdir, "build-stubgen.log"), "w").write(out)
        if rc != 0:
            raise d.Undecided("the generator itself does not build: " + " | ".join([l for l in out.split("\n") if "error" in l][:3]))
        binary = os.path.join(env["CARGO_TARGET_DIR"], "debug", "trustfall_stubgen")
        shutil.rmtree(gen, ignore_errors=True)
        os.makedirs(os.path.join(gen, "src"))
        generated = []
        for i, (name, text) in enumerate(fam):
            sdir = os.path.join(gen, "src", f"s{i}")
            os.makedirs(sdir)
            spath = os.path.join(sdir, "input.graphql")
            open(spath, "w").write(text)
            p = subprocess.run([binary, "--schema", spath, "--target", sdir], capture_output=True, text=True, env=env, timeout=120)
            err = (p.stderr or "").strip()
            if p.returncode == 0:
                generated.append(i)
                outcome[name] = ("generated", "")
            elif "cannot generate adapter for a schema containing both" in err:
                outcome[name] = ("refused", err.split("\n")[1][:200] if "\n" in err else err[:200])
                shutil.rmtree(os.path.join(sdir, "adapter"), ignore_errors=True)
            elif p.returncode == 1 and err.startswith("Error:"):
                outcome[name] = ("rejected", err[:200])
            elif re.search(r"panicked at trustfall_core/src/schema/mod\.rs", err):
                # Schema::parse itself panicked: the document is not a valid schema (that is C19's subject, not C26's)
                outcome[name] = ("rejected", " ".join(err.split("\n")[:2])[:200])
            elif "panicked at" in err:
                det = re.sub(r"thread '\w+' \(\d+\) ", "", " ".join(err.split("\n")[:2]))
                det = re.sub(r"(\.rs):\d+:\d+", r"\1", det)
                outcome[name] = ("generator-failed", det.replace(" note: run with `RUST_BACKTRACE=1` environment variable to display a backtrace", "")[:300])
            else:
                outcome[name] = ("undecided", " ".join(err.split("\n")[:3])[:300])
        open(os.path.join(gen, "Cargo.toml"), "w").write(
            f"[package]\nname = \"tests\"\npublish = false\nversion = \"0.1.0\"\nedition = \"2021\"\nrust-version = \"1.70\"\n\n[dependencies]\ntrustfall = {{ path = '{ws}/trustfall' }}\n\n[workspace]\n")
        shutil.copy(os.path.join(ws, "Cargo.lock"), os.path.join(gen, "Cargo.lock"))
        # compile all stubs as modules of one crate; on errors drop the offending modules and recompile, so that errors of
        # later compiler phases in other modules are not masked
        live = list(generated)
        while live and compile_rounds < 8:
            compile_rounds += 1
            open(os.path.join(gen, "src", "lib.rs"), "w").write("".join(f"mod s{i} {{ mod adapter; }}\n" for i in live))
            rc, out, wall, to, _ = d.run_cmd(["cargo", "test", "--no-run", "--offline", "--message-format", "short"], gen, env, 2400)
            open(os.path.join(logdir, f"compile-{compile_rounds}.log"), "w").write(out)
            if rc == 0:
                for i in live:
                    outcome[fam[i][0]] = ("compiled", "")
                break
            if to:
                undecided.append("compiling the generated stubs timed out")
                break
            bad = {}
            for l in out.split("\n"):
                m = re.match(r"src/s(\d+)/\S+?:\d+:\d+: error(\[E\d+\])?: (.*)", l)
                if m:
                    bad.setdefault(int(m.group(1)), []).append((m.group(2) or "") + " " + m.group(3))
            if not bad:
                undecided.append("compile failed without an error attributed to a generated module: " + " | ".join([l for l in out.split("\n") if "error" in l][:3]))
                break
            for i, errs in bad.items():
                outcome[fam[i][0]] = ("does-not-compile", re.sub(r"\bs\d+::adapter::", "", errs[0].strip())[:240])
            live = [i for i in live if i not in bad]
        else:
            if live:
                undecided.append("compile rounds exhausted")
    except d.Undecided as e:
        undecided.append(str(e))
    except subprocess.TimeoutExpired:
        undecided.append("generator timed out")
    finally:
        fcntl.flock(lock, fcntl.LOCK_UN)
        lock.close()
    counts = {}
    for n, (c, _) in outcome.items():
        counts[c] = counts.get(c, 0) + 1
    for n, (c, det) in outcome.items():
        if c == "undecided":
            undecided.append(f"{n}: generator failed outside trustfall_stubgen: {det}")
    # vacuity guard: the family must actually reach rustc
    if not undecided and counts.get("compiled", 0) + counts.get("does-not-compile", 0) < len(fam) // 2:
        undecided.append(f"only {counts.get('compiled', 0) + counts.get('does-not-compile', 0)} of {len(fam)} schemas reached the compiler")
    findings = [f for f in d.load_findings() if f.get("property") == prop]
    failing = sorted((n, c, det) for n, (c, det) in outcome.items() if c in ("does-not-compile", "generator-failed"))
    fresh = []
    for n, c, det in failing:
        desc = f"{c}: {det} @ {n}".replace('"', "'")
        hit = [f for f in findings if f.get("check", "\0") in desc]
        (known if hit else fresh).append((n, c, det, hit[0] if hit else None))
    for text in sorted({f.get("what", f.get("check", "")) for _, _, _, f in known}):
        print(f"KNOWN-FINDING: property={prop} {text} ({sum(1 for _, _, _, f in known if f.get('what', f.get('check', '')) == text)} schemas of this run)")
    if fresh:
        payload = dict(property=prop, harness="c26_generated_stub_compiles", backend="the real generator + rustc (cargo test --no-run --offline), bounded family",
                       failed_obligations=[dict(schema=n, outcome=c, first_error=det) for n, c, det, _ in fresh],
                       obligation_text=["for a valid schema the generator either refuses with its documented name-conflict message or produces a stub that compiles, tests included"],
                       failing_input={n: texts[n] for n, _, _, _ in fresh[:5]},
                       how_to_replay="write the schema to s.graphql; cargo run -p trustfall_stubgen -- --schema s.graphql --target gen/src; add gen/Cargo.toml with a path dependency on trustfall, `mod adapter;` in gen/src/lib.rs, copy Cargo.lock; cargo test --no-run --offline",
                       reproduced=True, logs=logdir)
        pth = d.write_replay_file(prop, "c26_generated_stub_compiles", payload)
        violations.append(pth)
        print(f"VIOLATION property={prop} replay={pth}")
        for n, c, det, _ in fresh[:12]:
            print(f"  refuted obligation for schema {n}: {c}: {det}")
    for u in undecided:
        d.log(f"UNDECIDED {prop}: {u}")
    wall = time.time() - t0
    if not d.TAG:
        comp = [n for n, (c, _) in outcome.items() if c == "compiled"]
        ev = dict(property_id=prop, tier=tier, seed=int(os.environ.get("VERIF_SEED", "0") or 0), level="other",
                  coverage=dict(explanation="Bounded stand-in, NOT a proof and not contract-based: no contract on the stubgen functions can express 'rustc accepts the generated crate', so the statement itself is evaluated on an enumerated family of schemas. The real generator built from /repo's working tree is run on each schema; every generated stub is compiled, tests included, with `cargo test --no-run --offline` against the working tree's trustfall crate (all stubs as modules of one crate; modules with errors are dropped and the rest recompiled so that later-phase errors are not masked). A documented name-conflict refusal of the generator counts as 'no stub generated'.",
                                evaluations=len(outcome), distinct_nontrivial=counts.get("compiled", 0) + counts.get("does-not-compile", 0),
                                rule="one case = one schema of the enumerated family (scalars x 8 modifier shapes as properties/entrypoint parameters/edge parameters, default values, interfaces, edge cardinalities, names equal to identifiers the generated code uses, every strict/reserved/weak Rust keyword as type/property/edge+parameter/entrypoint name, pairs of names differing only in case or underscores as two types/two properties/two entrypoints/two parameters (thorough: also two edges, property+edge, type+property); capitalized keywords as type and field names); non-trivial = a stub was generated and handed to rustc",
                                samples=[dict(schema=n, outcome=outcome[n][0]) for n in list(outcome)[:6]] + [dict(schema=n, text=texts[n]) for n in comp[:2]],
                                outcome_counts=counts, refused=[n for n, (c, _) in outcome.items() if c == "refused"][:400], rejected_by_schema_validation=[n for n, (c, _) in outcome.items() if c == "rejected"][:400],
                                known_findings=[dict(schema=n, outcome=c, first_error=det) for n, c, det, _ in known],
                                compile_rounds=compile_rounds, obligations=0, discharged=0,
                                checker_cmd=f"./check C26 --tier {tier}  (cargo build -p trustfall_stubgen; trustfall_stubgen --schema <each> --target <dir>; cargo test --no-run --offline on the generated crate)",
                                trusted_base=["rustc/cargo (repository toolchain) as the acceptance oracle", "the copied Cargo.lock resolves the generated crate's dependencies offline"],
                                functions_under_contract=["generate_rust_stub (trustfall_stubgen/src/root.rs)", "to_lower_snake_case, upper_case_variant_name, escaped_rust_name (trustfall_stubgen/src/util.rs)", "make_edges_file, make_properties_file, make_entrypoints_file, make_adapter_file"],
                                undecided=undecided, exhaustive=False),
                  assumptions=["bounded family of schemas; schemas outside it are not covered", "rustc's verdict on the generated crate with the repository's Cargo.lock stands for the verdict a user's build would give", "a panic inside Schema::parse (trustfall_core/src/schema/mod.rs) is counted as an invalid schema (C19), every other generator panic as a generator failure"],
                  wall_s=round(wall, 1), violations=len(violations))
        os.makedirs(os.path.join(d.VERIF, "evidence"), exist_ok=True)
        json.dump(ev, open(os.path.join(d.VERIF, "evidence", f"{prop}.json"), "w"), indent=1)
    d.log(f"[{prop}/{tier}] schemas={len(fam)} outcomes={counts} known={len(known)} violations={len(violations)} undecided={len(undecided)} rounds={compile_rounds} wall={wall:.0f}s")
    return 1 if violations else (2 if undecided else 0)


def warm(d, repo):
    """./check setup: build the generator and the trustfall crate once so that the first quick run is not dominated by compilation."""
    base = os.path.join(d.SCRATCH_ROOT, "c26")
    os.makedirs(base, exist_ok=True)
    env = dict(os.environ, CARGO_NET_OFFLINE="true", CARGO_TARGET_DIR=os.path.join(d.CACHE, "target-c26"), RUST_BACKTRACE="0")
    env.pop("RUSTFLAGS", None)
    lock = open(os.path.join(d.SCRATCH_ROOT, "c26.lock"), "w")
    fcntl.flock(lock, fcntl.LOCK_EX)
    try:
        ws, gen = os.path.join(base, "ws"), os.path.join(base, "gen")
        subprocess.check_call(["rsync", "-rl", "--checksum", "--delete", "--exclude", "/target", "--exclude", ".git", repo.rstrip("/") + "/", ws + "/"])
        rc, out, wall, to, _ = d.run_cmd(["cargo", "build", "--offline", "-p", "trustfall_stubgen"], ws, env, 2400)
        d.log(f"setup: stubgen build rc={rc} {wall:.0f}s")
        shutil.rmtree(gen, ignore_errors=True)
        os.makedirs(os.path.join(gen, "src"))
        open(os.path.join(gen, "src", "lib.rs"), "w").write("")
        open(os.path.join(gen, "Cargo.toml"), "w").write(
            f"[package]\nname = \"tests\"\npublish = false\nversion = \"0.1.0\"\nedition = \"2021\"\nrust-version = \"1.70\"\n\n[dependencies]\ntrustfall = {{ path = '{ws}/trustfall' }}\n\n[workspace]\n")
        shutil.copy(os.path.join(ws, "Cargo.lock"), os.path.join(gen, "Cargo.lock"))
        rc, out, wall, to, _ = d.run_cmd(["cargo", "test", "--no-run", "--offline"], gen, env, 2400)
        d.log(f"setup: generated-crate dependency build rc={rc} {wall:.0f}s")
    finally:
        fcntl.flock(lock, fcntl.LOCK_UN)
        lock.close()
