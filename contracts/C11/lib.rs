// @target trustfall_core/src/lib.rs
// @module verif_c11
// @cfg all(test, verif_replay)
// @fn trustfall_core/src/frontend/mod.rs::make_ir_for_query
// @fn trustfall_core/src/frontend/tags.rs::TagHandler
// @fn trustfall_core/src/frontend/mod.rs::fill_in_query_variables
// @fn trustfall_core/src/ir/indexed.rs::add_data_from_component
//
// The structural invariants of compiled queries, written from the property statement as a
// postcondition of the frontend (`parse`) and evaluated on every query of the corpus (bounded native
// stand-in: symbolic GraphQL documents / IR trees are out of CBMC's reach).
use crate::ir::{Argument, Eid, FieldRef, IRFold, IRQueryComponent, IndexedQuery, Vid};
use crate::verif_corpus::{compile, corpus};
use crate::verif_vk as vk;
use std::collections::{BTreeMap, BTreeSet};
use std::sync::Arc;

struct Walk<'a> {
    vids: Vec<Vid>,
    eids: Vec<Eid>,
    problems: BTreeSet<String>,
    iq: &'a IndexedQuery,
}

fn tag_refs_in_component(c: &IRQueryComponent, deep: bool, out: &mut Vec<FieldRef>) {
    for v in c.vertices.values() {
        for f in &v.filters { if let Some(Argument::Tag(t)) = f.right() { out.push(t.clone()); } }
    }
    for fold in c.folds.values() {
        // a fold's count filters are evaluated in the component that contains the fold
        for f in &fold.post_filters { if let Some(Argument::Tag(t)) = f.right() { out.push(t.clone()); } }
        if deep { tag_refs_in_component(&fold.component, true, out); }
    }
}
fn defined_in(c: &IRQueryComponent, t: &FieldRef) -> bool {
    match t { FieldRef::ContextField(cf) => c.vertices.contains_key(&cf.vertex_id), FieldRef::FoldSpecificField(ff) => c.folds.contains_key(&ff.fold_eid) }
}
fn min_eid(c: &IRQueryComponent) -> Option<Eid> {
    let mut m: Option<Eid> = None;
    for e in c.edges.keys().chain(c.folds.keys()) { m = Some(m.map_or(*e, |x| x.min(*e))); }
    for f in c.folds.values() { if let Some(x) = min_eid(&f.component) { m = Some(m.map_or(x, |y| y.min(x))); } }
    m
}

fn walk(w: &mut Walk<'_>, c: &Arc<IRQueryComponent>) {
    if !c.vertices.contains_key(&c.root) { w.problems.insert("component root is not one of its vertices".into()); }
    for (vid, v) in &c.vertices {
        if *vid != v.vid { w.problems.insert("vertex map key differs from the vertex id".into()); }
        w.vids.push(*vid);
        match w.iq.vids.get(vid) { Some(owner) if Arc::ptr_eq(owner, c) || owner.as_ref() == c.as_ref() => {}, _ => { w.problems.insert(format!("vertex {vid:?} is not indexed to its own component")); } }
        for f in &v.filters {
            match f.right() {
                Some(Argument::Tag(t)) => { if t.defined_at() > *vid { w.problems.insert(format!("tag used at {vid:?} before its definition at {:?}", t.defined_at())); } }
                Some(Argument::Variable(vr)) => {
                    match w.iq.ir_query.variables.get(&vr.variable_name) {
                        Some(t) if vr.variable_type.is_scalar_only_subtype(t) => {}
                        Some(t) => { w.problems.insert(format!("variable {} recorded as {t} which is not a subtype of its use type {}", vr.variable_name, vr.variable_type)); }
                        None => { w.problems.insert(format!("variable {} used but not recorded", vr.variable_name)); }
                    }
                }
                None => {}
            }
        }
    }
    for (eid, e) in &c.edges {
        w.eids.push(*eid);
        if usize::from(eid.0) + 1 != usize::from(e.to_vid.0) { w.problems.insert(format!("edge {eid:?} does not lead to vertex eid+1")); }
        if e.from_vid >= e.to_vid { w.problems.insert(format!("edge {eid:?} does not go from a lower to a higher vertex id")); }
        if !c.vertices.contains_key(&e.from_vid) || !c.vertices.contains_key(&e.to_vid) { w.problems.insert(format!("edge {eid:?} leaves its component")); }
    }
    for (eid, f) in &c.folds {
        w.eids.push(*eid);
        if usize::from(eid.0) + 1 != usize::from(f.to_vid.0) { w.problems.insert(format!("fold {eid:?} does not lead to vertex eid+1")); }
        if f.from_vid >= f.to_vid { w.problems.insert(format!("fold {eid:?} does not go from a lower to a higher vertex id")); }
        if !c.vertices.contains_key(&f.from_vid) { w.problems.insert(format!("fold {eid:?} does not start in its component")); }
        if f.to_vid != f.component.root { w.problems.insert(format!("fold {eid:?} does not lead to the root of its component")); }
        if let Some(m) = min_eid(&f.component) { if m <= *eid { w.problems.insert(format!("fold {eid:?} does not precede its contents")); } }
        for vr in f.post_filters.iter().filter_map(|p| match p.right() { Some(Argument::Variable(vr)) => Some(vr), _ => None }) {
            match w.iq.ir_query.variables.get(&vr.variable_name) {
                Some(t) if vr.variable_type.is_scalar_only_subtype(t) => {}
                _ => { w.problems.insert(format!("variable {} of a fold-count filter not recorded with a compatible type", vr.variable_name)); }
            }
        }
        check_imports(w, c, f);
        walk(w, &f.component);
    }
}

/// "imported tags are exactly those used inside a fold from outside it": a fold imports, from the
/// component that directly contains it, exactly the tags defined there and used anywhere inside the
/// fold (including nested folds and their count filters) - each once.
fn check_imports(w: &mut Walk<'_>, parent: &IRQueryComponent, f: &IRFold) {
    let mut used = Vec::new();
    tag_refs_in_component(&f.component, true, &mut used);
    let want: BTreeSet<FieldRef> = used.into_iter().filter(|t| defined_in(parent, t)).collect();
    let got: BTreeSet<FieldRef> = f.imported_tags.iter().cloned().collect();
    if got.len() != f.imported_tags.len() { w.problems.insert(format!("fold {:?} imports a tag more than once", f.eid)); }
    for t in want.difference(&got) { w.problems.insert(format!("fold {:?} uses outer tag {} of {:?} without importing it", f.eid, t.field_name(), t.defined_at())); }
    for t in got.difference(&want) {
        if !defined_in(parent, t) { w.problems.insert(format!("fold {:?} imports tag {} that its enclosing component does not define", f.eid, t.field_name())); }
        else { w.problems.insert(format!("fold {:?} imports tag {} that is not used inside it", f.eid, t.field_name())); }
    }
}

// @grid c11_grid_structural_invariants tier=quick bound="[+ seeded random accepted documents, VERIF_SEED] every query of the repository's valid-query corpus (4 schemas) plus 8 extra fold/tag/variable shapes, compiled by the real frontend"
// @ob every compiled query: edge i leads to vertex i+1; every vertex and edge belongs to exactly one component and is indexed to it; folds precede their contents and lead to their component's root; edges go from lower to higher vertex ids; tags are defined at vertices resolved no later than their uses; each fold imports exactly (and once) the tags of its enclosing component used inside it; every variable use is recorded with a type it is a supertype of, and every recorded variable is used
pub(crate) fn c11_grid_structural_invariants() {
    let mut n = 0u64;
    let mut failures = BTreeSet::new();
    for case in crate::verif_corpus::corpus_with_random(300, 11) {
        vk::grid_case(format_args!("{} ({})", case.name, case.schema_name));
        let Some(iq) = compile(&case) else { continue; }; // frontend-rejected corpus entries carry an expected error
        let mut w = Walk { vids: vec![], eids: vec![], problems: BTreeSet::new(), iq: &iq };
        walk(&mut w, &iq.ir_query.root_component);
        let (vs, es): (BTreeSet<_>, BTreeSet<_>) = (w.vids.iter().cloned().collect(), w.eids.iter().cloned().collect());
        if vs.len() != w.vids.len() { w.problems.insert("a vertex belongs to two components".into()); }
        if es.len() != w.eids.len() { w.problems.insert("an edge belongs to two components".into()); }
        if vs != iq.vids.keys().cloned().collect() { w.problems.insert("indexed vertex ids differ from the vertices of the component tree".into()); }
        if es != iq.eids.keys().cloned().collect() { w.problems.insert("indexed edge ids differ from the edges of the component tree".into()); }
        // ids are dense: 1..=n vertices, 1..=n-1 edges
        if vs.iter().enumerate().any(|(i, v)| usize::from(v.0) != i + 1) { w.problems.insert("vertex ids are not 1..=n".into()); }
        if es.iter().enumerate().any(|(i, e)| usize::from(e.0) != i + 1) { w.problems.insert("edge ids are not 1..=n-1".into()); }
        // every recorded variable is used
        let mut used_vars = BTreeSet::new();
        fn vars(c: &IRQueryComponent, out: &mut BTreeSet<Arc<str>>) {
            for v in c.vertices.values() { for f in &v.filters { if let Some(Argument::Variable(vr)) = f.right() { out.insert(vr.variable_name.clone()); } } }
            for f in c.folds.values() { for p in &f.post_filters { if let Some(Argument::Variable(vr)) = p.right() { out.insert(vr.variable_name.clone()); } } vars(&f.component, out); }
        }
        vars(&iq.ir_query.root_component, &mut used_vars);
        if used_vars != iq.ir_query.variables.keys().cloned().collect() { w.problems.insert("recorded variables differ from the variables used".into()); }
        for p in w.problems { failures.insert(format!("{}: {}", case.name, p)); }
        n += 1;
    }
    vk::grid_done("c11_grid_structural_invariants", n);
    if !failures.is_empty() { panic!("structural invariant failures: {{{}}}", failures.into_iter().take(12).collect::<Vec<_>>().join("; ")); }
}
