// @target trustfall_core/src/interpreter/filtering.rs
// @module verif_c07
// @fn equals
// @fn make_comparison_op_func
// @fn make_greater_than_func_slow_path
// @fn make_less_than_func_slow_path
// @fn one_of
// @fn contains
// @fn has_prefix
// @fn has_suffix
// @fn has_substring
// @fn regex_matches_slow_path
// @fn regex_matches_optimized
// @fn is_null
// @fn apply_filter_op
// @fn apply_filter_with_static_argument_value
// @fn apply_filter_with_tagged_argument_value
use super::*;
use crate::ir::{FieldValue, FoldSpecificField, FoldSpecificFieldKind, Eid};
use crate::verif_spec::{mk_int_or_null, mk_scalar, num, spec_cmp_scalar, K_F64, K_I64, K_NULL, K_U64};
use crate::verif_vk as vk;
use std::cmp::Ordering;
use std::num::NonZeroUsize;
use std::sync::Arc;

// ------------------------------------------------------------------------------------------
// 1. Integers: every comparison operator == the comparison of the numeric values (i128).
// ------------------------------------------------------------------------------------------
// @harness c07_integer_operators tier=quick kind=complete
// @ob for all Int64/Uint64 operand pairs (4 representation pairs x 2^128 payloads): equals/</<=/>/>= return exactly num(l) op num(r)
// @ob the slow paths never reach unreachable!() on integer operands
#[kani::proof]
#[kani::unwind(2)]
pub(crate) fn c07_integer_operators() {
    let (sa, sb) = (vk::any_bool(), vk::any_bool());
    verif_split3!(sa as u8 + 1, ka => {
        verif_split3!(sb as u8 + 1, kb => {
            let l = mk_int_or_null(ka);
            let r = mk_int_or_null(kb);
            if let (Some(x), Some(y)) = (num(&l), num(&r)) {
                verif_cover!(x == y, "numerically equal operands");
                verif_cover!(x < 0 || y < 0, "negative operand");
                verif_cover!(x > i64::MAX as i128 || y > i64::MAX as i128, "operand beyond the signed range");
                assert!(equals(&l, &r) == (x == y), "equals == numeric equality");
                assert!(less_than(&l, &r) == (x < y), "less_than == numeric <");
                assert!(less_than_or_equal(&l, &r) == (x <= y), "less_than_or_equal == numeric <=");
                assert!(greater_than(&l, &r) == (x > y), "greater_than == numeric >");
                assert!(greater_than_or_equal(&l, &r) == (x >= y), "greater_than_or_equal == numeric >=");
            }
            core::mem::forget(l);
            core::mem::forget(r);
        })
    });
}

// ------------------------------------------------------------------------------------------
// 2. Null handling: ordering comparisons with null are false; equality is null-safe.
// ------------------------------------------------------------------------------------------
// @harness c07_null_operands tier=quick kind=complete
// @ob for x in {Null, Int64, Uint64, finite Float64}: every ordering operator with a null operand on either side is false
// @ob equals(Null,Null) and for non-null x: !equals(Null,x), !equals(x,Null); is_null(x) == (x is Null)
#[kani::proof]
#[kani::unwind(2)]
pub(crate) fn c07_null_operands() {
    let s = vk::any_u8();
    verif_split5!(s, k => {
        if k <= K_F64 {
            let x = mk_scalar(k);
            let n = FieldValue::Null;
            verif_cover!(true, "kind reached");
            assert!(!less_than(&n, &x) && !less_than(&x, &n), "< with null is false");
            assert!(!less_than_or_equal(&n, &x) && !less_than_or_equal(&x, &n), "<= with null is false");
            assert!(!greater_than(&n, &x) && !greater_than(&x, &n), "> with null is false");
            assert!(!greater_than_or_equal(&n, &x) && !greater_than_or_equal(&x, &n), ">= with null is false");
            assert!(equals(&n, &x) == (k == K_NULL), "equals(null, x) iff x is null");
            assert!(equals(&x, &n) == (k == K_NULL), "equals(x, null) iff x is null");
            assert!(is_null(&x) == (k == K_NULL), "is_null");
            core::mem::forget(x);
        }
    });
}

// ------------------------------------------------------------------------------------------
// 3. Finite floats and booleans (same kind): agree with the native comparison.
// ------------------------------------------------------------------------------------------
// @harness c07_float_operators tier=quick kind=complete
// @ob for all finite f64 pairs: equals/</<=/>/>= agree with IEEE comparison of the payloads; equals on booleans is ==
#[kani::proof]
#[kani::unwind(2)]
pub(crate) fn c07_float_operators() {
    let (x, y) = (vk::any_f64(), vk::any_f64());
    vk::assume(x.is_finite() && y.is_finite());
    let l = FieldValue::Float64(x);
    let r = FieldValue::Float64(y);
    assert!(equals(&l, &r) == (x == y), "float equals");
    assert!(less_than(&l, &r) == (x < y), "float <");
    assert!(less_than_or_equal(&l, &r) == (x <= y), "float <=");
    assert!(greater_than(&l, &r) == (x > y), "float >");
    assert!(greater_than_or_equal(&l, &r) == (x >= y), "float >=");
    let (p, q) = (vk::any_bool(), vk::any_bool());
    let (bl, br) = (FieldValue::Boolean(p), FieldValue::Boolean(q));
    assert!(equals(&bl, &br) == (p == q), "bool equals");
    // different kinds are never equal (other than the two integer representations)
    assert!(!equals(&l, &bl) && !equals(&bl, &l), "float != bool");
    core::mem::forget((l, r, bl, br));
}

// @harness c07_cross_kind_equals tier=quick kind=complete
// @ob for all scalar pairs: equals(l,r) == (spec order says Equal)  [equality never holds across kinds except Int64/Uint64 with the same numeric value]
#[kani::proof]
#[kani::unwind(2)]
pub(crate) fn c07_cross_kind_equals() {
    let (sa, sb) = (vk::any_u8(), vk::any_u8());
    verif_split5!(sa, ka => {
        verif_split5!(sb, kb => {
            let l = mk_scalar(ka);
            let r = mk_scalar(kb);
            verif_cover!(true, "pair reached");
            assert!(equals(&l, &r) == (spec_cmp_scalar(&l, &r) == Ordering::Equal), "equals == spec equality");
            assert!(equals(&l, &r) == equals(&r, &l), "equals symmetric");
            core::mem::forget(l);
            core::mem::forget(r);
        })
    });
}

// ------------------------------------------------------------------------------------------
// 4. Dispatch and complement, modularly.
//
//  (a) helper contracts: `apply_filter_op_with_static_argument` / `..._with_tagged_argument`, for an
//      ARBITRARY filter closure (a havoc closure returning a symbolic answer), pop exactly one value
//      and keep the context iff `within_nonexistent_optional() || closure(left, right)`
//      (tagged: also kept when the tag value is NonexistentOptional).
//  (b) the two dispatch functions are then checked against that contract, not the helper bodies:
//      the helpers are replaced (kani::stub) by a recorder that evaluates the closure the dispatcher
//      installed on a probe pair; the harness compares it with the operator the arm must decide
//      and, for negated arms, with the exact complement of the positive operator.
// `regex` is not executed symbolically (A3): Kani 0.68 cannot compile regex_automata's builder
// (internal compiler error in codegen_get_discriminant), so `Regex::new` is stubbed to "invalid
// pattern" and `is_match` to an arbitrary answer wherever they are reachable.
// ------------------------------------------------------------------------------------------
pub(crate) fn stub_regex_new(_re: &str) -> Result<Regex, regex::Error> {
    Err(regex::Error::Syntax(String::new()))
}
pub(crate) fn stub_regex_is_match(_self: &Regex, _haystack: &str) -> bool {
    vk::any_bool()
}

fn dummy_arg() -> Argument {
    let one = NonZeroUsize::new(1).unwrap();
    Argument::Tag(FieldRef::FoldSpecificField(FoldSpecificField {
        fold_eid: Eid(one),
        fold_root_vid: Vid(one),
        kind: FoldSpecificFieldKind::Count,
    }))
}

// @harness c07_helper_static_contract tier=quick kind=complete timeout=900 heavy=1 unwindset="try_fold=2"
// @ob apply_filter_op_with_static_argument(right, f, once(ctx)) for an ARBITRARY closure f (havoc answer) and ctx with or without an active vertex: yields ctx iff ctx has no active vertex or f(popped value, right)
#[kani::proof]
#[kani::unwind(1)]
pub(crate) fn c07_helper_static_contract() {
    let present = vk::any_bool();
    let answer = vk::any_bool();
    let mut ctx: DataContext<()> = DataContext::new(if present { Some(()) } else { None });
    ctx.values.push(FieldValue::Null);
    let it: ContextIterator<'static, ()> = Box::new(std::iter::once(ctx));
    let mut out = apply_filter_op_with_static_argument(FieldValue::Null, move |_l: &FieldValue, _r: &FieldValue| answer, it);
    let first = out.next();
    verif_cover!(first.is_some(), "context kept");
    verif_cover!(first.is_none(), "context dropped");
    assert!(first.is_some() == (!present || answer), "kept iff nonexistent-optional or closure true");
    core::mem::forget(first);
    core::mem::forget(out);
}

// @harness c07_helper_tagged_contract tier=quick kind=complete timeout=900 heavy=1 unwindset="try_fold=2"
// @ob apply_filter_op_with_tagged_argument(f, once((ctx, tag))) for an ARBITRARY closure f: yields ctx iff tag is NonexistentOptional, or ctx has no active vertex, or f(popped value, tag value)
#[kani::proof]
#[kani::unwind(1)]
pub(crate) fn c07_helper_tagged_contract() {
    let present = vk::any_bool();
    let answer = vk::any_bool();
    let tag_exists = vk::any_bool();
    let mut ctx: DataContext<()> = DataContext::new(if present { Some(()) } else { None });
    ctx.values.push(FieldValue::Null);
    let tag = if tag_exists { TaggedValue::Some(FieldValue::Null) } else { TaggedValue::NonexistentOptional };
    let it: ContextOutcomeIterator<'static, (), TaggedValue> = Box::new(std::iter::once((ctx, tag)));
    let mut out = apply_filter_op_with_tagged_argument(move |_l: &FieldValue, _r: &FieldValue| answer, it);
    let first = out.next();
    verif_cover!(first.is_some(), "context kept");
    verif_cover!(first.is_none(), "context dropped");
    assert!(first.is_some() == (!tag_exists || !present || answer), "kept iff tag missing, nonexistent-optional, or closure true");
    core::mem::forget(first);
    core::mem::forget(out);
}

// ---- (b) recorder stubs -------------------------------------------------------------------
// (the crate forbids `unsafe`, and thread_local! trips a Kani 0.68 compiler assertion, so the
// recorder state lives in atomics: probe operands are stored as (kind, bits) and rebuilt)
use std::sync::atomic::{AtomicU64, AtomicU8, Ordering as AO};
static PROBE_L_KIND: AtomicU8 = AtomicU8::new(0);
static PROBE_L_BITS: AtomicU64 = AtomicU64::new(0);
static PROBE_R_KIND: AtomicU8 = AtomicU8::new(0);
static PROBE_R_BITS: AtomicU64 = AtomicU64::new(0);
static RECORDED: AtomicU8 = AtomicU8::new(0);

pub(crate) const P_NULL: u8 = 0;
pub(crate) const P_I64: u8 = 1;
pub(crate) const P_U64: u8 = 2;
pub(crate) const P_STR: u8 = 5; // bits: len (<=2) | b0 << 8 | b1 << 16, ASCII bytes

pub(crate) fn mk_short_string(bits: u64) -> FieldValue {
    let len = (bits & 0xff) as usize;
    let b = [((bits >> 8) & 0x7f) as u8, ((bits >> 16) & 0x7f) as u8];
    let s: &str = match len {
        0 => "",
        1 => core::str::from_utf8(&b[..1]).unwrap(),
        _ => core::str::from_utf8(&b[..2]).unwrap(),
    };
    FieldValue::String(Arc::from(s))
}

/// Recorder for integer probes. The probe *kinds* are fixed per path (SWAP selects
/// (Int64, Uint64) or (Uint64, Int64)), only the payload bits travel through the atomics, so the
/// variants stay concrete for CBMC.
pub(crate) fn rec_static<'query, RightValue: 'query, Vertex: Debug + Clone + 'query, FilterFn: Fn(&FieldValue, &RightValue) -> bool + 'query>(
    right_value: RightValue,
    filter_op: FilterFn,
    iterator: ContextIterator<'query, Vertex>,
) -> ContextIterator<'query, Vertex> {
    let bits = PROBE_L_BITS.load(AO::Relaxed);
    if PROBE_L_KIND.load(AO::Relaxed) == P_I64 {
        let l = FieldValue::Int64(bits as i64);
        RECORDED.store(1 + filter_op(&l, &right_value) as u8, AO::Relaxed);
    } else {
        let l = FieldValue::Uint64(bits);
        RECORDED.store(1 + filter_op(&l, &right_value) as u8, AO::Relaxed);
    }
    core::mem::forget(right_value);
    core::mem::forget(filter_op);
    iterator
}

pub(crate) fn rec_tagged<'query, Vertex: Debug + Clone + 'query, FilterFn: Fn(&FieldValue, &FieldValue) -> bool + 'query>(
    filter_op: FilterFn,
    iterator: ContextOutcomeIterator<'query, Vertex, TaggedValue>,
) -> ContextIterator<'query, Vertex> {
    let (lb, rb) = (PROBE_L_BITS.load(AO::Relaxed), PROBE_R_BITS.load(AO::Relaxed));
    if PROBE_L_KIND.load(AO::Relaxed) == P_I64 {
        let (l, r) = (FieldValue::Int64(lb as i64), FieldValue::Uint64(rb));
        RECORDED.store(1 + filter_op(&l, &r) as u8, AO::Relaxed);
    } else {
        let (l, r) = (FieldValue::Uint64(lb), FieldValue::Int64(rb as i64));
        RECORDED.store(1 + filter_op(&l, &r) as u8, AO::Relaxed);
    }
    core::mem::forget(filter_op);
    core::mem::forget(iterator);
    Box::new(std::iter::empty())
}

fn recorded() -> bool {
    let r = RECORDED.load(AO::Relaxed);
    assert!(r != 0, "dispatcher did not install a filter through the helper");
    r == 2
}

/// What closure did the static dispatcher install for `op`?  (evaluated on the probe pair)
fn installed_static(op: &Operation<(), &Argument>, l: (u8, u64), r: FieldValue) -> bool {
    PROBE_L_KIND.store(l.0, AO::Relaxed);
    PROBE_L_BITS.store(l.1, AO::Relaxed);
    RECORDED.store(0, AO::Relaxed);
    let it: ContextIterator<'static, ()> = Box::new(std::iter::empty());
    let out = apply_filter_with_static_argument_value(op, r, it);
    core::mem::forget(out);
    recorded()
}
fn installed_tagged(op: &Operation<(), &Argument>, l: (u8, u64), r: FieldValue) -> bool {
    PROBE_L_KIND.store(l.0, AO::Relaxed);
    PROBE_L_BITS.store(l.1, AO::Relaxed);
    PROBE_R_BITS.store(match r { FieldValue::Int64(i) => i as u64, FieldValue::Uint64(u) => u, _ => 0 }, AO::Relaxed);
    RECORDED.store(0, AO::Relaxed);
    let it: ContextOutcomeIterator<'static, (), TaggedValue> = Box::new(std::iter::empty());
    let out = apply_filter_with_tagged_argument_value(op, it);
    core::mem::forget(out);
    recorded()
}

macro_rules! ordering_dispatch_body {
    ($installed:ident) => {{
        let arg = dummy_arg();
        let which = vk::any_u8();
        let (a, b) = (vk::any_i64(), vk::any_u64());
        let swap = vk::any_bool();
        // both operand orders: (Int64, Uint64) and (Uint64, Int64)
        if swap {
            let (x, y) = (b as i128, a as i128);
            ordering_arms!($installed, which, arg, (P_U64, b), FieldValue::Int64(a), x, y);
        } else {
            let (x, y) = (a as i128, b as i128);
            ordering_arms!($installed, which, arg, (P_I64, a as u64), FieldValue::Uint64(b), x, y);
        }
    }};
}
macro_rules! ordering_arms {
    ($installed:ident, $which:ident, $arg:ident, $l:expr, $r:expr, $x:ident, $y:ident) => {
        match $which {
            0 => assert!($installed(&Operation::Equals((), &$arg), $l, $r) == ($x == $y), "arm = decides numeric equality"),
            1 => assert!($installed(&Operation::NotEquals((), &$arg), $l, $r) == ($x != $y), "arm != is the complement of ="),
            2 => assert!($installed(&Operation::LessThan((), &$arg), $l, $r) == ($x < $y), "arm < decides numeric <"),
            3 => assert!($installed(&Operation::LessThanOrEqual((), &$arg), $l, $r) == ($x <= $y), "arm <= decides numeric <="),
            4 => assert!($installed(&Operation::GreaterThan((), &$arg), $l, $r) == ($x > $y), "arm > decides numeric >"),
            _ => assert!($installed(&Operation::GreaterThanOrEqual((), &$arg), $l, $r) == ($x >= $y), "arm >= decides numeric >="),
        }
    };
}

// @harness c07_dispatch_static_ordering tier=quick kind=complete
// @ob apply_filter_with_static_argument_value: arms =, !=, <, <=, >, >= install a closure equal to the numeric comparison on mixed Int64/Uint64 operands (full domain, both orders); != is the exact complement of =
#[kani::proof]
#[kani::unwind(2)]
#[kani::stub(regex::Regex::new, stub_regex_new)]
#[kani::stub(regex::Regex::is_match, stub_regex_is_match)]
#[kani::stub(apply_filter_op_with_static_argument, rec_static)]
pub(crate) fn c07_dispatch_static_ordering() {
    ordering_dispatch_body!(installed_static)
}

// @harness c07_dispatch_tagged_ordering tier=quick kind=complete
// @ob apply_filter_with_tagged_argument_value: arms =, !=, <, <=, >, >= install a closure equal to the numeric comparison on mixed Int64/Uint64 operands (full domain, both orders)
#[kani::proof]
#[kani::unwind(2)]
#[kani::stub(regex::Regex::new, stub_regex_new)]
#[kani::stub(regex::Regex::is_match, stub_regex_is_match)]
#[kani::stub(apply_filter_op_with_tagged_argument, rec_tagged)]
pub(crate) fn c07_dispatch_tagged_ordering() {
    ordering_dispatch_body!(installed_tagged)
}

// ------------------------------------------------------------------------------------------
// 5. Strings (bounded: length <= 2 ASCII bytes, every byte symbolic) against byte-level specs.
// ------------------------------------------------------------------------------------------
#[derive(Clone, Copy)]
pub(crate) struct SS { len: usize, b: [u8; 2] }
pub(crate) fn ss_any(len: usize) -> SS {
    let (b0, b1) = (vk::any_u8(), vk::any_u8());
    vk::assume(b0 < 128 && b1 < 128);
    SS { len, b: [b0, b1] }
}
pub(crate) fn ss_value(s: SS) -> FieldValue {
    let st: &str = match s.len {
        0 => "",
        1 => core::str::from_utf8(&s.b[..1]).unwrap(),
        _ => core::str::from_utf8(&s.b[..2]).unwrap(),
    };
    FieldValue::String(Arc::from(st))
}
fn ss_prefix(l: SS, r: SS) -> bool {
    r.len <= l.len && (r.len < 1 || l.b[0] == r.b[0]) && (r.len < 2 || l.b[1] == r.b[1])
}
fn ss_suffix(l: SS, r: SS) -> bool {
    if r.len > l.len { return false; }
    let off = l.len - r.len;
    (r.len < 1 || l.b[off] == r.b[0]) && (r.len < 2 || l.b[off + 1] == r.b[1])
}
fn ss_substring(l: SS, r: SS) -> bool {
    match (l.len, r.len) {
        (_, 0) => true,
        (0, _) => false,
        (1, 1) => l.b[0] == r.b[0],
        (1, _) => false,
        (_, 1) => l.b[0] == r.b[0] || l.b[1] == r.b[0],
        _ => l.b[0] == r.b[0] && l.b[1] == r.b[1],
    }
}
fn ss_cmp(l: SS, r: SS) -> Ordering {
    // lexicographic order of the byte strings
    let mut i = 0;
    if l.len > 0 && r.len > 0 {
        if l.b[0] != r.b[0] { return l.b[0].cmp(&r.b[0]); }
        i = 1;
        if l.len > 1 && r.len > 1 {
            if l.b[1] != r.b[1] { return l.b[1].cmp(&r.b[1]); }
        }
    }
    let _ = i;
    l.len.cmp(&r.len)
}

macro_rules! split_len {
    ($sel:expr, $n:ident => $body:block) => {
        match $sel { 0 => { let $n: usize = 0; $body } 1 => { let $n: usize = 1; $body } _ => { let $n: usize = 2; $body } }
    };
}

fn strings_pair(a: SS, b: SS, l: FieldValue, r: FieldValue) {
    verif_cover!(true, "reached");
    assert!(has_prefix(&l, &r) == ss_prefix(a, b), "has_prefix == byte prefix");
    assert!(has_suffix(&l, &r) == ss_suffix(a, b), "has_suffix == byte suffix");
    let c = ss_cmp(a, b);
    assert!(equals(&l, &r) == (c == Ordering::Equal), "string equals");
    assert!(less_than(&l, &r) == (c == Ordering::Less), "string <");
    assert!(less_than_or_equal(&l, &r) == (c != Ordering::Greater), "string <=");
    assert!(greater_than(&l, &r) == (c == Ordering::Greater), "string >");
    assert!(greater_than_or_equal(&l, &r) == (c != Ordering::Less), "string >=");
    core::mem::forget((l, r));
}
fn str1(s: SS) -> FieldValue {
    let arr = [s.b[0]];
    FieldValue::String(Arc::from(core::str::from_utf8(&arr).unwrap()))
}
fn str2(s: SS) -> FieldValue {
    let arr = [s.b[0], s.b[1]];
    FieldValue::String(Arc::from(core::str::from_utf8(&arr).unwrap()))
}
// @harness c07_string_operators_11 tier=quick kind=bounded bound="left string of 1 byte(s), right of 1 byte(s), ASCII, all byte values" timeout=900
// @ob has_prefix/has_suffix(l,r) == byte-level prefix/suffix; equals/</<=/>/>= == lexicographic byte order
#[kani::proof]
#[kani::unwind(4)]
pub(crate) fn c07_string_operators_11() {
    let (a, b) = (ss_any(1), ss_any(1));
    strings_pair(a, b, str1(a), str1(b));
}

// @harness c07_string_operators_21 tier=quick kind=bounded bound="left string of 2 byte(s), right of 1 byte(s), ASCII, all byte values" timeout=900
// @ob has_prefix/has_suffix(l,r) == byte-level prefix/suffix; equals/</<=/>/>= == lexicographic byte order
#[kani::proof]
#[kani::unwind(4)]
pub(crate) fn c07_string_operators_21() {
    let (a, b) = (ss_any(2), ss_any(1));
    strings_pair(a, b, str2(a), str1(b));
}

// @harness c07_string_operators_12 tier=quick kind=bounded bound="left string of 1 byte(s), right of 2 byte(s), ASCII, all byte values" timeout=900
// @ob has_prefix/has_suffix(l,r) == byte-level prefix/suffix; equals/</<=/>/>= == lexicographic byte order
#[kani::proof]
#[kani::unwind(4)]
pub(crate) fn c07_string_operators_12() {
    let (a, b) = (ss_any(1), ss_any(2));
    strings_pair(a, b, str1(a), str2(b));
}

// @harness c07_string_operators_22 tier=quick kind=bounded bound="left string of 2 byte(s), right of 2 byte(s), ASCII, all byte values" timeout=900
// @ob has_prefix/has_suffix(l,r) == byte-level prefix/suffix; equals/</<=/>/>= == lexicographic byte order
#[kani::proof]
#[kani::unwind(4)]
pub(crate) fn c07_string_operators_22() {
    let (a, b) = (ss_any(2), ss_any(2));
    strings_pair(a, b, str2(a), str2(b));
}

// @harness c07_string_null_operands tier=quick kind=complete timeout=900
// @ob has_prefix/has_suffix/has_substring/equals/ordering with a null operand and a string operand are false on both sides
#[kani::proof]
#[kani::unwind(4)]
pub(crate) fn c07_string_null_operands() {
    let a = ss_any(1);
    let s = str1(a);
    let n = FieldValue::Null;
    assert!(!has_prefix(&n, &s) && !has_prefix(&s, &n) && !has_prefix(&n, &n), "has_prefix with null is false");
    assert!(!has_suffix(&n, &s) && !has_suffix(&s, &n) && !has_suffix(&n, &n), "has_suffix with null is false");
    assert!(!has_substring(&n, &s) && !has_substring(&s, &n) && !has_substring(&n, &n), "has_substring with null is false");
    assert!(!equals(&n, &s) && !equals(&s, &n), "string never equals null");
    assert!(!less_than(&s, &n) && !less_than(&n, &s) && !greater_than_or_equal(&n, &s) && !greater_than_or_equal(&s, &n), "ordering string vs null is false");
    core::mem::forget(s);
}

// ------------------------------------------------------------------------------------------
// 6. one_of / contains (bounded: lists of <= 2 elements drawn from null/Int64/Uint64).
// ------------------------------------------------------------------------------------------
fn spec_eq(a: &FieldValue, b: &FieldValue) -> bool {
    spec_cmp_scalar(a, b) == Ordering::Equal
}

// @harness c07_one_of_contains tier=quick kind=bounded bound="lists of length 0..2 over null/Int64/Uint64, payloads full domain" timeout=900
// @ob one_of(l, List xs) <=> exists x in xs. l == x (numeric / null-safe equality); one_of(l, Null) == false; contains(xs, l) == one_of(l, xs); equals(l, r) == one_of(l, [r])
#[kani::proof]
#[kani::unwind(4)]
pub(crate) fn c07_one_of_contains() {
    let (s0, s1, s2) = (vk::any_u8(), vk::any_u8(), vk::any_u8());
    verif_split3!(s0, k0 => {
        verif_split3!(s1, k1 => {
            verif_split3!(s2, k2 => {
                let l = mk_int_or_null(k0);
                let (x, y) = (mk_int_or_null(k1), mk_int_or_null(k2));
                let (ex, ey) = (spec_eq(&l, &x), spec_eq(&l, &y));
                verif_cover!(ex && !ey, "matches first only");
                let single_eq = equals(&l, &x);
                let empty = FieldValue::List(Arc::new([]) as Arc<[FieldValue]>);
                assert!(!one_of(&l, &empty) && !contains(&empty, &l), "nothing is in the empty list");
                assert!(!one_of(&l, &FieldValue::Null), "one_of(l, null) is false");
                let one = FieldValue::List(Arc::new([x.clone()]) as Arc<[FieldValue]>);
                assert!(one_of(&l, &one) == ex, "one_of with one element == equality");
                assert!(single_eq == one_of(&l, &one), "= agrees with one-element one_of");
                let two = FieldValue::List(Arc::new([x, y]) as Arc<[FieldValue]>);
                assert!(one_of(&l, &two) == (ex || ey), "one_of == exists equal element");
                assert!(contains(&two, &l) == (ex || ey), "contains(xs, l) == one_of(l, xs)");
                core::mem::forget((l, empty, one, two));
            })
        })
    });
}

// ------------------------------------------------------------------------------------------
// 7. Dispatch of the string / list / regex arms (recorder stubs as in 4b).
// ------------------------------------------------------------------------------------------
pub(crate) fn rec_static_str<'query, RightValue: 'query, Vertex: Debug + Clone + 'query, FilterFn: Fn(&FieldValue, &RightValue) -> bool + 'query>(
    right_value: RightValue,
    filter_op: FilterFn,
    iterator: ContextIterator<'query, Vertex>,
) -> ContextIterator<'query, Vertex> {
    let bits = PROBE_L_BITS.load(AO::Relaxed);
    let s = SS { len: 0, b: [((bits >> 8) & 0x7f) as u8, ((bits >> 16) & 0x7f) as u8] };
    {
        let l = str2(s);
        RECORDED.store(1 + filter_op(&l, &right_value) as u8, AO::Relaxed);
        core::mem::forget(l);
    }
    core::mem::forget(right_value);
    core::mem::forget(filter_op);
    iterator
}
pub(crate) fn rec_tagged_str<'query, Vertex: Debug + Clone + 'query, FilterFn: Fn(&FieldValue, &FieldValue) -> bool + 'query>(
    filter_op: FilterFn,
    iterator: ContextOutcomeIterator<'query, Vertex, TaggedValue>,
) -> ContextIterator<'query, Vertex> {
    let (lb, rb) = (PROBE_L_BITS.load(AO::Relaxed), PROBE_R_BITS.load(AO::Relaxed));
    let sl = SS { len: 0, b: [((lb >> 8) & 0x7f) as u8, ((lb >> 16) & 0x7f) as u8] };
    let sr = SS { len: 0, b: [((rb >> 8) & 0x7f) as u8, ((rb >> 16) & 0x7f) as u8] };
    {
        let (l, r) = (str2(sl), str1(sr));
        RECORDED.store(1 + filter_op(&l, &r) as u8, AO::Relaxed);
        core::mem::forget((l, r));
    }
    core::mem::forget(filter_op);
    core::mem::forget(iterator);
    Box::new(std::iter::empty())
}
fn ss_bits(s: SS) -> u64 {
    s.len as u64 | (s.b[0] as u64) << 8 | (s.b[1] as u64) << 16
}

macro_rules! string_arms {
    ($installed:ident, $which:ident, $arg:ident, $lp:expr, $mk_r:expr, $l:ident, $r:ident) => {
        match $which {
            0 => assert!($installed(&Operation::HasPrefix((), &$arg), $lp, $mk_r) == has_prefix(&$l, &$r), "arm has_prefix"),
            1 => assert!($installed(&Operation::NotHasPrefix((), &$arg), $lp, $mk_r) == !has_prefix(&$l, &$r), "arm not_has_prefix is the complement"),
            2 => assert!($installed(&Operation::HasSuffix((), &$arg), $lp, $mk_r) == has_suffix(&$l, &$r), "arm has_suffix"),
            _ => assert!($installed(&Operation::NotHasSuffix((), &$arg), $lp, $mk_r) == !has_suffix(&$l, &$r), "arm not_has_suffix is the complement"),
        }
    };
}

// (The string arms has_prefix/has_suffix/has_substring of the two dispatchers are NOT checked: driving
//  the dispatchers with string probes exhausts 24 GB in CBMC. Their wiring is "not decided".)
fn installed_tagged_keep_r(op: &Operation<(), &Argument>, l: (u8, u64), _r: FieldValue) -> bool {
    PROBE_L_KIND.store(l.0, AO::Relaxed);
    PROBE_L_BITS.store(l.1, AO::Relaxed);
    RECORDED.store(0, AO::Relaxed);
    let it: ContextOutcomeIterator<'static, (), TaggedValue> = Box::new(std::iter::empty());
    let out = apply_filter_with_tagged_argument_value(op, it);
    core::mem::forget(out);
    recorded()
}

// list arms: probe left = Int64, right = [Uint64] (one element, full domain)
pub(crate) fn rec_tagged_list<'query, Vertex: Debug + Clone + 'query, FilterFn: Fn(&FieldValue, &FieldValue) -> bool + 'query>(
    filter_op: FilterFn,
    iterator: ContextOutcomeIterator<'query, Vertex, TaggedValue>,
) -> ContextIterator<'query, Vertex> {
    let (lb, rb) = (PROBE_L_BITS.load(AO::Relaxed), PROBE_R_BITS.load(AO::Relaxed));
    let int = FieldValue::Int64(lb as i64);
    let list = FieldValue::List(Arc::new([FieldValue::Uint64(rb)]) as Arc<[FieldValue]>);
    // PROBE_L_KIND == P_I64: (int, list) i.e. one_of orientation; otherwise (list, int) i.e. contains
    if PROBE_L_KIND.load(AO::Relaxed) == P_I64 {
        RECORDED.store(1 + filter_op(&int, &list) as u8, AO::Relaxed);
    } else {
        RECORDED.store(1 + filter_op(&list, &int) as u8, AO::Relaxed);
    }
    core::mem::forget((int, list));
    core::mem::forget(filter_op);
    core::mem::forget(iterator);
    Box::new(std::iter::empty())
}
pub(crate) fn rec_static_list<'query, RightValue: 'query, Vertex: Debug + Clone + 'query, FilterFn: Fn(&FieldValue, &RightValue) -> bool + 'query>(
    right_value: RightValue,
    filter_op: FilterFn,
    iterator: ContextIterator<'query, Vertex>,
) -> ContextIterator<'query, Vertex> {
    let lb = PROBE_L_BITS.load(AO::Relaxed);
    if PROBE_L_KIND.load(AO::Relaxed) == P_I64 {
        let l = FieldValue::Int64(lb as i64);
        RECORDED.store(1 + filter_op(&l, &right_value) as u8, AO::Relaxed);
    } else {
        let l = FieldValue::List(Arc::new([FieldValue::Uint64(lb)]) as Arc<[FieldValue]>);
        RECORDED.store(1 + filter_op(&l, &right_value) as u8, AO::Relaxed);
        core::mem::forget(l);
    }
    core::mem::forget(right_value);
    core::mem::forget(filter_op);
    iterator
}

// @harness c07_dispatch_lists tier=quick kind=complete timeout=900
// @ob both dispatchers: arms one_of / not_one_of / contains / not_contains install membership of an Int64 in a one-element [Uint64] list (full domain) and its exact complement
#[kani::proof]
#[kani::unwind(3)]
#[kani::stub(regex::Regex::new, stub_regex_new)]
#[kani::stub(regex::Regex::is_match, stub_regex_is_match)]
#[kani::stub(apply_filter_op_with_static_argument, rec_static_list)]
#[kani::stub(apply_filter_op_with_tagged_argument, rec_tagged_list)]
pub(crate) fn c07_dispatch_lists() {
    let arg = dummy_arg();
    let which = vk::any_u8();
    let (a, b) = (vk::any_i64(), vk::any_u64());
    let member = (a as i128) == (b as i128);
    verif_cover!(member, "member reachable");
    let list = || FieldValue::List(Arc::new([FieldValue::Uint64(b)]) as Arc<[FieldValue]>);
    match which {
        0 => assert!(installed_static(&Operation::OneOf((), &arg), (P_I64, a as u64), list()) == member, "static arm one_of"),
        1 => assert!(installed_static(&Operation::NotOneOf((), &arg), (P_I64, a as u64), list()) == !member, "static arm not_one_of is the complement"),
        2 => assert!(installed_static(&Operation::Contains((), &arg), (P_U64, b), FieldValue::Int64(a)) == member, "static arm contains"),
        3 => assert!(installed_static(&Operation::NotContains((), &arg), (P_U64, b), FieldValue::Int64(a)) == !member, "static arm not_contains is the complement"),
        4 => { PROBE_R_BITS.store(b, AO::Relaxed); assert!(installed_tagged_keep_r(&Operation::OneOf((), &arg), (P_I64, a as u64), FieldValue::Null) == member, "tagged arm one_of") }
        5 => { PROBE_R_BITS.store(b, AO::Relaxed); assert!(installed_tagged_keep_r(&Operation::NotOneOf((), &arg), (P_I64, a as u64), FieldValue::Null) == !member, "tagged arm not_one_of is the complement") }
        6 => { PROBE_R_BITS.store(b, AO::Relaxed); assert!(installed_tagged_keep_r(&Operation::Contains((), &arg), (P_U64, a as u64), FieldValue::Null) == member, "tagged arm contains") }
        _ => { PROBE_R_BITS.store(b, AO::Relaxed); assert!(installed_tagged_keep_r(&Operation::NotContains((), &arg), (P_U64, a as u64), FieldValue::Null) == !member, "tagged arm not_contains is the complement") }
    }
}

// @harness c07_regex_null_handling tier=quick kind=complete timeout=900
// @ob regex_matches_slow_path is false when either operand is null (the regex engine itself is outside Kani's reach: A3)
#[kani::proof]
#[kani::unwind(4)]
#[kani::stub(regex::Regex::new, stub_regex_new)]
#[kani::stub(regex::Regex::is_match, stub_regex_is_match)]
pub(crate) fn c07_regex_null_handling() {
    let r = str1(ss_any(1));
    let n = FieldValue::Null;
    assert!(!regex_matches_slow_path(&n, &r) && !regex_matches_slow_path(&r, &n) && !regex_matches_slow_path(&n, &n), "regex with null is false");
    core::mem::forget(r);
}

// @harness c07_negative_control tier=quick kind=complete expect=fail
// @ob (control) claims greater_than(Int64(s), Uint64(u)) is never true: must FAIL
#[kani::proof]
#[kani::unwind(2)]
pub(crate) fn c07_negative_control() {
    let l = FieldValue::Int64(vk::any_i64());
    let r = FieldValue::Uint64(vk::any_u64());
    assert!(!greater_than(&l, &r), "control: Int64 never > Uint64 (false)");
}
