// @target trustfall_core/src/interpreter/mod.rs
// @module verif_c12
// @fn validate_argument_type
// @fn InterpretedQuery::from_query_and_arguments
use super::*;
use crate::verif_vk as vk;
use crate::ir::Type;

// @harness c12_validate_argument_type tier=quick kind=complete timeout=900 unwindset="!memcmp.0=8"
// @ob validate_argument_type(name, ty, v) is Ok iff ty.is_valid_value(v); otherwise it is ArgumentTypeError naming exactly that variable and carrying the offending value  (ty in {Int, Int!, [Int], [Int]!}, v in {null, Int64, Float64})
#[kani::proof]
#[kani::unwind(4)]
#[kani::stub(<Type as std::fmt::Display>::fmt, stub_type_display)]
pub(crate) fn c12_validate_argument_type() {
    let nullable = vk::any_bool();
    let t = if vk::any_bool() { Type::new_named_type("Int", nullable) } else { Type::new_list_type(Type::new_named_type("Int", true), nullable) };
    match vk::any_u8() {
        0 => check_validate(&t, FieldValue::Null),
        1 => check_validate(&t, FieldValue::Int64(vk::any_i64())),
        _ => check_validate(&t, FieldValue::Float64(1.5)),
    }
    core::mem::forget(t);
}
// The rendering of the type inside the error message is not part of the property; `Display for Type`
// (core::fmt machinery) is replaced by a no-op in harnesses that reach the error path.
pub(crate) fn stub_type_display(_t: &Type, _f: &mut std::fmt::Formatter<'_>) -> std::fmt::Result {
    Ok(())
}
fn check_validate(t: &Type, v: FieldValue) {
    let valid = t.is_valid_value(&v);
    verif_cover!(valid, "valid reachable");
    verif_cover!(!valid, "invalid reachable");
    let r = validate_argument_type("x", t, &v);
    match &r {
        Ok(()) => assert!(valid, "accepted only if the value fits the type"),
        Err(QueryArgumentsError::ArgumentTypeError(name, _, val)) => {
            assert!(!valid, "rejected only if the value does not fit");
            assert!(name.as_str() == "x", "error names the offending variable");
            assert!(val == &v, "error carries the offending value");
        }
        Err(_) => assert!(false, "a type mismatch is reported as ArgumentTypeError"),
    }
    core::mem::forget((r, v));
}

// ---- from_query_and_arguments: variables subset of {a, b}, arguments subset of {a, b, c} ---------
fn tiny_query(var_a: Option<bool>, var_b: Option<bool>) -> Arc<IndexedQuery> {
    use crate::ir::{IRQuery, IRQueryComponent, Vid, EdgeParameters};
    let one = std::num::NonZeroUsize::new(1).unwrap();
    let root = Arc::new(IRQueryComponent {
        root: Vid::new(one),
        vertices: BTreeMap::new(),
        edges: BTreeMap::new(),
        folds: BTreeMap::new(),
        outputs: BTreeMap::new(),
    });
    let mut variables: BTreeMap<Arc<str>, Type> = BTreeMap::new();
    if let Some(nullable) = var_a { variables.insert(Arc::from("a"), Type::new_named_type("Int", nullable)); }
    if let Some(nullable) = var_b { variables.insert(Arc::from("b"), Type::new_named_type("Int", nullable)); }
    Arc::new(IndexedQuery {
        ir_query: IRQuery { root_name: Arc::from("R"), root_parameters: EdgeParameters::default(), root_component: root, variables },
        vids: BTreeMap::new(),
        eids: BTreeMap::new(),
        outputs: BTreeMap::new(),
    })
}
/// argument value kinds: 0 absent, 1 null, 2 Int64(any), 3 Float64
fn put(args: &mut BTreeMap<Arc<str>, FieldValue>, name: &'static str, kind: u8, payload: i64) {
    match kind {
        0 => {}
        1 => { args.insert(Arc::from(name), FieldValue::Null); }
        2 => { args.insert(Arc::from(name), if payload % 2 == 0 { FieldValue::Int64(payload) } else { FieldValue::Uint64(payload as u64) }); }
        _ => { args.insert(Arc::from(name), FieldValue::Float64(2.5)); }
    }
}
fn fits(var: Option<bool>, kind: u8) -> bool {
    // value of `kind` fits Int (nullable?) : null iff nullable, Int64 always, Float never
    match (var, kind) { (Some(nullable), 1) => nullable, (Some(_), 2) => true, _ => false }
}
struct Seen { missing_a: bool, missing_b: bool, unused_a: bool, unused_b: bool, unused_c: bool, type_a: bool, type_b: bool, other: bool, count: usize }
fn scan(e: &QueryArgumentsError, s: &mut Seen) {
    s.count += 1;
    match e {
        QueryArgumentsError::MissingArguments(v) => {
            for n in v.iter() { if n == "a" { s.missing_a = true } else if n == "b" { s.missing_b = true } else { s.other = true } }
        }
        QueryArgumentsError::UnusedArguments(v) => {
            for n in v.iter() { if n == "a" { s.unused_a = true } else if n == "b" { s.unused_b = true } else if n == "c" { s.unused_c = true } else { s.other = true } }
        }
        QueryArgumentsError::ArgumentTypeError(n, _, _) => { if n == "a" { s.type_a = true } else if n == "b" { s.type_b = true } else { s.other = true } }
        QueryArgumentsError::MultipleErrors(_) => { s.other = true }
    }
}

fn from_query_case(var_a: Option<bool>, var_b: Option<bool>, ka: u8, kb: u8, kc: u8, payload: i64) {
    let q = tiny_query(var_a, var_b);
    let mut args = BTreeMap::new();
    put(&mut args, "a", ka, payload);
    put(&mut args, "b", kb, payload);
    put(&mut args, "c", kc, payload);
    let exp_missing_a = var_a.is_some() && ka == 0;
    let exp_missing_b = var_b.is_some() && kb == 0;
    let exp_unused_a = var_a.is_none() && ka != 0;
    let exp_unused_b = var_b.is_none() && kb != 0;
    let exp_unused_c = kc != 0;
    let exp_type_a = var_a.is_some() && ka != 0 && !fits(var_a, ka);
    let exp_type_b = var_b.is_some() && kb != 0 && !fits(var_b, kb);
    let all_good = !(exp_missing_a || exp_missing_b || exp_unused_a || exp_unused_b || exp_unused_c || exp_type_a || exp_type_b);
    let r = InterpretedQuery::from_query_and_arguments(q, Arc::new(args));
    let mut s = Seen { missing_a: false, missing_b: false, unused_a: false, unused_b: false, unused_c: false, type_a: false, type_b: false, other: false, count: 0 };
    match &r {
        Ok(_) => assert!(all_good, "accepted exactly when complete, fully used and well typed"),
        Err(QueryArgumentsError::MultipleErrors(v)) => { for e in v.0.iter() { scan(e, &mut s); } assert!(s.count >= 2, "MultipleErrors holds several errors"); }
        Err(e) => scan(e, &mut s),
    }
    if r.is_err() { assert!(!all_good, "refused only when something is wrong"); }
    assert!(!s.other, "no unrelated names in the error");
    assert!(s.missing_a == exp_missing_a && s.missing_b == exp_missing_b, "error names exactly the missing variables");
    assert!(s.unused_a == exp_unused_a && s.unused_b == exp_unused_b && s.unused_c == exp_unused_c, "error names exactly the unused arguments");
    assert!(s.type_a == exp_type_a && s.type_b == exp_type_b, "error names exactly the ill-typed arguments");
}

fn opt_var(k: u8) -> Option<bool> { match k { 0 => None, 1 => Some(true), _ => Some(false) } }

// `from_query_and_arguments` itself is out of CBMC's reach (a single concrete-shaped call over real
// BTreeMap<Arc<str>, _> maps and the drop glue of IndexedQuery does not finish in 10 minutes), so it
// gets the bounded stand-in: the contract body is executed natively on the real function over the
// whole grid below.  Bounded, not a proof.
// @grid c12_grid_from_query_and_arguments tier=quick bound="variables subset of {a: Int|Int!, b: Int|Int!}; arguments subset of {a, b, c} with values absent/null/integer (9 boundary payloads, both representations)/float: 3*3*4*4*4*9 = 5184 argument maps"
// @ob from_query_and_arguments is Ok iff every variable has a value, every value is used and fits; otherwise the error lists exactly the missing names, exactly the unused names and one type error per ill-typed value
pub(crate) fn c12_grid_from_query_and_arguments() {
    let mut n = 0u64;
    for va in 0..3u8 { for vb in 0..3u8 { for ka in 0..4u8 { for kb in 0..4u8 { for kc in 0..4u8 { for p in vk::GRID_I64 {
        vk::grid_case(format_args!("var_a={:?} var_b={:?} arg_a_kind={} arg_b_kind={} arg_c_kind={} payload={}", opt_var(va), opt_var(vb), ka, kb, kc, p));
        from_query_case(opt_var(va), opt_var(vb), ka, kb, kc, p);
        n += 1;
    } } } } } }
    vk::grid_done("c12_grid_from_query_and_arguments", n);
}
