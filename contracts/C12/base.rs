// @target trustfall_core/src/ir/types/base.rs
// @module verif_c12
// @fn Type::is_valid_value
use super::*;
use super::{Modifiers, Type};
use crate::verif_spec::{depth_of, mk_scalar, wf_mask, K_BOOL, K_F64, K_I64, K_NULL, K_U64};
use crate::verif_vk as vk;

fn any_wf_mask(max_depth: u32) -> u64 {
    let m = vk::any_u64();
    vk::assume(wf_mask(m) && depth_of(m) <= max_depth);
    m
}
fn ty(base: &'static str, mask: u64) -> Type {
    Type { base: Arc::from(base), modifiers: Modifiers { mask } }
}
// base kinds: 0 Int, 1 Float, 2 String, 3 Boolean, 4 a vertex/other name
fn base_name(b: u8) -> &'static str {
    match b { 0 => "Int", 1 => "Float", 2 => "String", 3 => "Boolean", _ => "Thing" }
}
/// spec from the statement "the value fits the type": null iff the outermost level is nullable;
/// a scalar iff the type is not a list and the base is the scalar's kind.
fn spec_valid_scalar(mask: u64, base: u8, kind: u8) -> bool {
    if kind == K_NULL { return (mask & 1) == 0; }
    let want = match kind { K_I64 | K_U64 => 0, K_F64 => 1, K_BOOL => 3, _ => 2 };
    (mask & 2) == 0 && base == want
}

// @harness c12_is_valid_value_scalars tier=quick kind=complete timeout=900
// @ob Type::is_valid_value(v) == spec for every well-formed mask (depth 0..30), every base in {Int, Float, String, Boolean, other} and every scalar value (null, Int64, Uint64, finite Float64, Boolean, a String)
#[kani::proof]
#[kani::unwind(9)]
pub(crate) fn c12_is_valid_value_scalars() {
    let m = any_wf_mask(30);
    let (sb, sv) = (vk::any_u8(), vk::any_u8());
    verif_split5!(sb, b => {
        let t = ty(base_name(b), m);
        match sv {
            0 | 1 | 2 | 3 | 4 => {
                verif_split5!(sv, k => {
                    let v = mk_scalar(k);
                    verif_cover!(t.is_valid_value(&v), "valid reachable");
                    assert!(t.is_valid_value(&v) == spec_valid_scalar(m, b, k), "is_valid_value == spec (scalar)");
                    core::mem::forget(v);
                });
            }
            _ => {
                let v = FieldValue::String(Arc::from("s"));
                assert!(t.is_valid_value(&v) == spec_valid_scalar(m, b, 9), "is_valid_value == spec (string)");
                core::mem::forget(v);
            }
        }
        core::mem::forget(t);
    });
}

// lists: concrete list shapes, symbolic element payloads, symbolic type masks of depth <= 2
fn l1(a: FieldValue) -> FieldValue { FieldValue::List(Arc::new([a]) as Arc<[FieldValue]>) }
fn l2(a: FieldValue, b: FieldValue) -> FieldValue { FieldValue::List(Arc::new([a, b]) as Arc<[FieldValue]>) }

// @harness c12_is_valid_value_lists tier=quick kind=bounded bound="list values of length <= 2, nesting <= 2; types of depth <= 2" timeout=900 unwindset="!memcmp.0=8"
// @ob a list value fits a type iff the type is a list and every element fits the element type (mask >> 2); null elements fit iff the element level is nullable
#[kani::proof]
#[kani::unwind(3)]
pub(crate) fn c12_is_valid_value_lists() {
    let m = any_wf_mask(2);
    let int_base = vk::any_bool();
    let t = if int_base { ty("Int", m) } else { ty("Float", m) };
    let is_list = (m & 2) != 0;
    let inner = m >> 2;
    let inner_is_list = (inner & 2) != 0;
    let i = vk::any_i64();
    let elem_null_ok = (inner & 1) == 0;
    let elem_int_ok = !inner_is_list && int_base;
    match vk::any_u8() {
        0 => { let v = FieldValue::List(Arc::new([]) as Arc<[FieldValue]>); assert!(t.is_valid_value(&v) == is_list, "empty list fits any list type"); core::mem::forget(v); }
        1 => { let v = l1(FieldValue::Null); assert!(t.is_valid_value(&v) == (is_list && elem_null_ok), "[null]"); core::mem::forget(v); }
        2 => { let v = l1(FieldValue::Int64(i)); assert!(t.is_valid_value(&v) == (is_list && elem_int_ok), "[int]"); core::mem::forget(v); }
        3 => { let v = l2(FieldValue::Int64(i), FieldValue::Null); assert!(t.is_valid_value(&v) == (is_list && elem_int_ok && elem_null_ok), "[int, null]"); core::mem::forget(v); }
        4 => { let v = l2(FieldValue::Null, FieldValue::Uint64(vk::any_u64())); assert!(t.is_valid_value(&v) == (is_list && elem_int_ok && elem_null_ok), "[null, uint]"); core::mem::forget(v); }
        _ => {
            let v = l1(l1(FieldValue::Int64(i)));
            let inner2 = inner >> 2;
            assert!(t.is_valid_value(&v) == (is_list && inner_is_list && (inner2 & 2) == 0 && int_base), "[[int]]");
            core::mem::forget(v);
        }
    }
    core::mem::forget(t);
}

// @harness c12_negative_control tier=quick kind=complete expect=fail
// @ob (control) claims Int! accepts null: must FAIL
#[kani::proof]
#[kani::unwind(9)]
pub(crate) fn c12_negative_control() {
    let t = ty("Int", 1);
    assert!(t.is_valid_value(&FieldValue::Null), "control: non-null type accepts null (false)");
    core::mem::forget(t);
}
