// @target trustfall_core/src/ir/indexed.rs
// @module verif_c13
// @fn get_output_type
// @fn get_optional_vertices_in_component
use super::*;
use crate::ir::{EdgeParameters, FieldValue};
use crate::verif_vk as vk;
use std::num::NonZeroUsize;

fn nz(n: usize) -> NonZeroUsize { NonZeroUsize::new(n).unwrap() }

/// The declared type of an output, from the statement: nullable when produced inside @optional, one
/// list level per enclosing @fold, that list itself nullable when the fold is inside @optional.
fn spec_output_type(field: &str, optional: bool, folds_optional: &[bool]) -> String {
    let mut s = if optional { field.trim_end_matches('!').to_string() } else { field.to_string() };
    for f in folds_optional.iter().rev() {
        s = format!("[{}]{}", s, if *f { "" } else { "!" });
    }
    s
}

// @harness c13_get_output_type_small tier=quick kind=bounded bound="field types Int / Int!; at most 2 enclosing folds" timeout=900 unwindset="!memcmp.0=5"
// @ob get_output_type(vid, ty, optional_vertices, folds_optional): outermost-to-innermost, one list level per fold, non-null iff that fold is not inside an @optional; the innermost level is ty made nullable iff vid is in an optional scope
#[kani::proof]
#[kani::unwind(4)]
pub(crate) fn c13_get_output_type_small() {
    let field_nullable = vk::any_bool();
    let in_optional = vk::any_bool();
    let (f0, f1) = (vk::any_bool(), vk::any_bool());
    let field = Type::new_named_type("Int", field_nullable);
    let mut set = BTreeSet::new();
    if in_optional { set.insert(Vid::new(nz(1))); }
    match vk::any_u8() % 3 {
        0 => {
            let t = get_output_type(Vid::new(nz(1)), &field, &set, &[]);
            assert!(!t.is_list() && t.nullable() == (field_nullable || in_optional), "no folds: the field type, nullable inside @optional");
            core::mem::forget(t);
        }
        1 => {
            let t = get_output_type(Vid::new(nz(1)), &field, &set, &[f0]);
            assert!(t.is_list() && t.nullable() == f0, "one fold: a list, nullable iff the fold is inside @optional");
            let inner = t.as_list().unwrap();
            assert!(!inner.is_list() && inner.nullable() == (field_nullable || in_optional), "one fold: element type");
            core::mem::forget((t, inner));
        }
        _ => {
            let t = get_output_type(Vid::new(nz(1)), &field, &set, &[f0, f1]);
            assert!(t.is_list() && t.nullable() == f0, "two folds: outer list nullability follows the outer fold");
            let mid = t.as_list().unwrap();
            assert!(mid.is_list() && mid.nullable() == f1, "two folds: inner list nullability follows the inner fold");
            let inner = mid.as_list().unwrap();
            assert!(!inner.is_list() && inner.nullable() == (field_nullable || in_optional), "two folds: element type");
            core::mem::forget((t, mid, inner));
        }
    }
    core::mem::forget((field, set));
}

// @harness c13_negative_control tier=quick kind=complete expect=fail
// @ob (control) claims outputs inside @optional keep a non-null type: must FAIL
#[kani::proof]
#[kani::unwind(4)]
pub(crate) fn c13_negative_control() {
    let field = Type::new_named_type("Int", false);
    let mut set = BTreeSet::new();
    set.insert(Vid::new(nz(1)));
    let t = get_output_type(Vid::new(nz(1)), &field, &set, &[]);
    assert!(!t.nullable(), "control: optional output stays non-null (false)");
    core::mem::forget((t, field, set));
}

// @grid c13_grid_output_types tier=quick bound="9 field types up to depth 2; vertex inside/outside @optional; 0..3 enclosing folds with every optional/non-optional combination"
// @ob get_output_type equals the declared-type specification (rendered type text and parsed Type both compared)
pub(crate) fn c13_grid_output_types() {
    let mut n = 0u64;
    let fields = ["Int", "Int!", "String", "Float!", "[Int]", "[Int!]", "[Int]!", "[Int!]!", "[[Boolean!]]!"];
    for field in fields { for optional in [false, true] { for k in 0..4usize { for bits in 0..(1u32 << k) {
        let flags: Vec<bool> = (0..k).map(|i| bits & (1 << i) != 0).collect();
        vk::grid_case(format_args!("field={} optional={} folds_optional={:?}", field, optional, flags));
        let mut set = BTreeSet::new();
        set.insert(Vid::new(nz(7)));
        if optional { set.insert(Vid::new(nz(3))); }
        let t = get_output_type(Vid::new(nz(3)), &Type::parse(field).unwrap(), &set, &flags);
        let want = spec_output_type(field, optional, &flags);
        assert!(t.to_string() == want, "declared output type differs from the specification");
        assert!(t == Type::parse(&want).unwrap(), "declared output type differs from the specification (parsed)");
        // a fold count is a non-null integer outside optional scopes, and the count value fits it
        if k == 0 && !optional {
            let count_ty = get_output_type(Vid::new(nz(3)), crate::ir::FoldSpecificFieldKind::Count.field_type(), &set, &flags);
            assert!(count_ty.to_string() == "Int!" && count_ty.is_valid_value(&FieldValue::Uint64(n)), "fold count outside optional scopes is Int!");
        }
        n += 1;
    } } } }
    vk::grid_done("c13_grid_output_types", n);
}

// @grid c13_grid_optional_vertices tier=quick bound="components with 3 edges in a chain, a star or a mixed tree; every optional-flag combination"
// @ob get_optional_vertices_in_component: a vertex is reported iff some edge on its path from the component root is @optional
pub(crate) fn c13_grid_optional_vertices() {
    let mut n = 0u64;
    // shapes: (from, to) of edges with eid = to - 1 (the IR invariant edge i -> vertex i+1)
    let shapes: [[(usize, usize); 3]; 3] = [[(1, 2), (2, 3), (3, 4)], [(1, 2), (1, 3), (1, 4)], [(1, 2), (1, 3), (2, 4)]];
    for shape in shapes { for bits in 0..8u32 {
        vk::grid_case(format_args!("shape={:?} optional_bits={:03b}", shape, bits));
        let mut edges = BTreeMap::new();
        for (i, (from, to)) in shape.iter().enumerate() {
            let e = IREdge { eid: Eid::new(nz(to - 1)), from_vid: Vid::new(nz(*from)), to_vid: Vid::new(nz(*to)), edge_name: Arc::from("e"), parameters: EdgeParameters::default(),
                             optional: bits & (1 << i) != 0, recursive: None };
            edges.insert(e.eid, Arc::new(e));
        }
        let comp = Arc::new(IRQueryComponent { root: Vid::new(nz(1)), vertices: BTreeMap::new(), edges, folds: BTreeMap::new(), outputs: BTreeMap::new() });
        let got = get_optional_vertices_in_component(&comp);
        for v in 1..=4usize {
            // walk up to the root
            let mut cur = v; let mut opt = false;
            while cur != 1 {
                let (i, (from, _)) = shape.iter().enumerate().find(|(_, (_, to))| *to == cur).unwrap();
                if bits & (1 << i) != 0 { opt = true; }
                cur = *from;
            }
            assert!(got.contains(&Vid::new(nz(v))) == opt, "optional-vertex set differs from the path definition");
        }
        n += 1;
    } }
    vk::grid_done("c13_grid_optional_vertices", n);
}
