// @target trustfall_core/src/lib.rs
// @module verif_c13e
// @cfg all(test, verif_replay)
// @fn trustfall_core/src/interpreter/execution.rs::construct_outputs
// @fn trustfall_core/src/interpreter/execution.rs::compute_fold
//
// The row-level clause as a postcondition of execution, evaluated on the real engine: every result
// row has exactly the declared output names and every value is valid for its declared type.
// Bounded native stand-in (corpus + shapes with nested folds / optionals the corpus lacks).
use crate::verif_corpus::{corpus, run_numbers, Run};
use crate::verif_vk as vk;
use crate::ir::FieldValue;
use std::collections::BTreeSet;
use std::sync::Arc;

const SHAPES: [(&str, &str); 10] = [
    ("fold under optional under fold, count output", r#"{ Number(min: 0, max: 3) { value @output predecessor @fold { value @output(name: "pv") predecessor @optional { value @output(name: "ppv") multiple(max: 2) @fold @transform(op: "count") @output(name: "cnt") { value @output(name: "m") } } } } }"#),
    ("nested folds, inner under optional", r#"{ Number(min: 0, max: 3) { value @output successor @fold { value @output(name: "s") predecessor @optional { divisor: multiple(max: 3) @fold { value @output(name: "m") } } } } }"#),
    ("nested folds, outer under optional", r#"{ Number(min: 0, max: 3) { value @output predecessor @optional { multiple(max: 3) @fold { value @output(name: "m") successor @fold { value @output(name: "ms") } } } } }"#),
    ("three nested folds", r#"{ Number(min: 1, max: 2) { value @output multiple(max: 3) @fold { value @output(name: "a") multiple(max: 2) @fold { value @output(name: "b") successor @fold @transform(op: "count") @output(name: "c") } } } }"#),
    ("optional chain with outputs", r#"{ Number(min: 0, max: 2) { value @output predecessor @optional { value @output(name: "p") predecessor @optional { value @output(name: "pp") name @output(name: "ppn") } } } }"#),
    ("fold count outputs at several levels", r#"{ Number(min: 0, max: 3) { value @output multiple(max: 3) @fold @transform(op: "count") @output(name: "c1") { successor @fold @transform(op: "count") @output(name: "c2") } } }"#),
    ("empty folds with nested outputs", r#"{ Number(min: 0, max: 1) { value @output multiple(max: 1) @fold { value @output(name: "m") multiple(max: 2) @fold { value @output(name: "mm") vowelsInName @output(name: "v") } } } }"#),
    ("recursion inside optional", r#"{ Number(min: 0, max: 2) { value @output predecessor @optional { successor @recurse(depth: 2) { value @output(name: "r") } } } }"#),
    ("typename and list property in fold", r#"{ Number(min: 2, max: 4) { __typename @output multiple(max: 2) @fold { __typename @output(name: "t") vowelsInName @output(name: "v") } } }"#),
    ("filters inside optional inside fold", r#"{ Number(min: 0, max: 4) { value @output successor @fold { predecessor @optional { value @output(name: "p") @filter(op: ">", value: ["$x"]) } } } }"#),
];

fn check_rows(label: &str, run: Run, failures: &mut BTreeSet<String>) -> bool {
    match run {
        Run::Rows(iq, rows) => {
            let declared: BTreeSet<Arc<str>> = iq.outputs.keys().cloned().collect();
            for (i, row) in rows.iter().enumerate() {
                let got: BTreeSet<Arc<str>> = row.keys().cloned().collect();
                if got != declared { failures.insert(format!("{label}: row {i} has outputs {got:?}, declared {declared:?}")); }
                for (name, value) in row {
                    if let Some(out) = iq.outputs.get(name) {
                        if !out.value_type.is_valid_value(value) { failures.insert(format!("{label}: output {name} declared {} but row {i} carries {value:?}", out.value_type)); }
                    }
                }
            }
            true
        }
        Run::Panic(m) => { failures.insert(format!("{label}: panic({})", m.lines().next().unwrap_or(""))); true }
        Run::FrontendError(e) => { failures.insert(format!("{label}: harness query rejected: {e}")); false }
        Run::ArgumentError(_) => false,
    }
}

// @grid c13_grid_rows_match_declared_outputs tier=quick bound="[+ seeded random accepted documents, VERIF_SEED] every numbers-schema query of the corpus (first 300 rows each) plus 10 shapes with nested folds / optionals / counts at several levels"
// @ob every result row carries exactly the declared output names, and every value is valid for the declared output type (nullable inside @optional, one list level per enclosing @fold, Int for counts)
pub(crate) fn c13_grid_rows_match_declared_outputs() {
    let mut n = 0u64;
    let mut failures = BTreeSet::new();
    for case in crate::verif_corpus::corpus_with_random(200, 13) {
        if case.schema_name != "numbers" { continue; }
        vk::grid_case(format_args!("{}", case.name));
        let args: Vec<(&str, FieldValue)> = case.arguments.iter().map(|(k, v)| (k.as_ref(), v.clone())).collect();
        let run = run_numbers(&case.query, &args, 300);
        if matches!(run, Run::FrontendError(_)) { continue; } // corpus entries that are frontend errors by design
        if check_rows(&case.name, run, &mut failures) { n += 1; }
    }
    for (label, q) in SHAPES {
        vk::grid_case(format_args!("{}", label));
        let args: Vec<(&str, FieldValue)> = if q.contains("$x") { vec![("x", FieldValue::Int64(1))] } else { vec![] };
        if check_rows(label, run_numbers(q, &args, 300), &mut failures) { n += 1; }
    }
    vk::grid_done("c13_grid_rows_match_declared_outputs", n);
    if !failures.is_empty() { panic!("rows differ from the declared outputs: {{{}}}", failures.into_iter().take(10).collect::<Vec<_>>().join("; ")); }
}
