// @target trustfall_core/src/lib.rs
// @module verif_c14
// @cfg all(test, verif_replay)
// @fn trustfall_core/src/frontend/mod.rs::parse
// @fn trustfall_core/src/schema/mod.rs::Schema
// @fn trustfall_core/src/interpreter/execution.rs::interpret_ir
//
// Determinism = "the result is a function of the inputs": the compiled query (or error), the rows in
// order and the sequence of adapter calls are digested per corpus query; the driver runs this grid in
// two separate processes (different std hash seeds) and requires identical digests; inside one
// process every query is also compiled and executed twice. Bounded stand-in for a hyper-property.
use crate::interpreter::execution::interpret_ir;
use crate::interpreter::{Adapter, AsVertex, ContextIterator, ContextOutcomeIterator, ResolveEdgeInfo, ResolveInfo, VertexIterator};
use crate::ir::{EdgeParameters, FieldValue};
use crate::numbers_interpreter::{NumbersAdapter, NumbersVertex};
use crate::schema::Schema;
use crate::verif_corpus::corpus;
use crate::verif_vk as vk;
use std::cell::RefCell;
use std::rc::Rc;
use std::sync::Arc;

struct Logger { inner: NumbersAdapter, log: Rc<RefCell<Vec<String>>> }
impl<'a> Adapter<'a> for Logger {
    type Vertex = NumbersVertex;
    fn resolve_starting_vertices(&self, edge_name: &Arc<str>, parameters: &EdgeParameters, resolve_info: &ResolveInfo) -> VertexIterator<'a, Self::Vertex> {
        self.log.borrow_mut().push(format!("start {edge_name} {:?}", parameters));
        self.inner.resolve_starting_vertices(edge_name, parameters, resolve_info)
    }
    fn resolve_property<V: AsVertex<Self::Vertex> + 'a>(&self, contexts: ContextIterator<'a, V>, type_name: &Arc<str>, property_name: &Arc<str>, resolve_info: &ResolveInfo) -> ContextOutcomeIterator<'a, V, FieldValue> {
        self.log.borrow_mut().push(format!("prop {type_name}.{property_name}"));
        self.inner.resolve_property(contexts, type_name, property_name, resolve_info)
    }
    fn resolve_neighbors<V: AsVertex<Self::Vertex> + 'a>(&self, contexts: ContextIterator<'a, V>, type_name: &Arc<str>, edge_name: &Arc<str>, parameters: &EdgeParameters, resolve_info: &ResolveEdgeInfo) -> ContextOutcomeIterator<'a, V, VertexIterator<'a, Self::Vertex>> {
        self.log.borrow_mut().push(format!("edge {type_name}.{edge_name} {:?}", parameters));
        self.inner.resolve_neighbors(contexts, type_name, edge_name, parameters, resolve_info)
    }
    fn resolve_coercion<V: AsVertex<Self::Vertex> + 'a>(&self, contexts: ContextIterator<'a, V>, type_name: &Arc<str>, coerce_to_type: &Arc<str>, resolve_info: &ResolveInfo) -> ContextOutcomeIterator<'a, V, bool> {
        self.log.borrow_mut().push(format!("coerce {type_name}->{coerce_to_type}"));
        self.inner.resolve_coercion(contexts, type_name, coerce_to_type, resolve_info)
    }
}
fn fnv(s: &str) -> u64 { s.bytes().fold(0xcbf29ce484222325u64, |h, b| (h ^ b as u64).wrapping_mul(0x100000001b3)) }

fn observe(schema: &Schema, schema_name: &str, query: &str, args: &std::collections::BTreeMap<Arc<str>, FieldValue>) -> String {
    match crate::frontend::parse(schema, query) {
        Err(e) => format!("frontend-error {}", ron::to_string(&e).unwrap_or_else(|_| format!("{e:?}"))),
        Ok(iq) => {
            let mut s = format!("ir {}", ron::to_string(&iq.ir_query).unwrap());
            if schema_name == "numbers" {
                let log = Rc::new(RefCell::new(Vec::new()));
                match interpret_ir(Arc::new(Logger { inner: NumbersAdapter::new(), log: log.clone() }), iq, Arc::new(args.clone())) {
                    Ok(rows) => { for r in rows.take(300) { s.push_str(&format!(" row {r:?}")); } }
                    Err(e) => s.push_str(&format!(" argument-error {e:?}")),
                }
                s.push_str(&format!(" calls {:?}", log.borrow()));
            }
            s
        }
    }
}

// @grid c14_grid_determinism tier=quick repeat=2 bound="[+ 100 seeded random accepted documents, VERIF_SEED] every query of the corpus (4 schemas, the frontend-error corpus 11 erroneous queries whose error carries several items, 4 erroneous argument maps with several items): compiled twice and executed twice in one process, and the whole grid run in two separate processes (different hash seeds); schemas are re-parsed from text in each process"
// @ob compiling the same query against the same schema yields the same compiled query or the same error, and executing it yields the same rows in the same order through the same sequence of adapter calls - across repetitions and across processes
pub(crate) fn c14_grid_determinism() {
    let mut n = 0u64;
    for case in crate::verif_corpus::corpus_with_random(100, 14) {
        vk::grid_case(format_args!("{}", case.name));
        // a fresh Schema per observation: Schema holds std HashMaps whose iteration order differs per instance
        let text = std::fs::read_to_string(format!("test_data/schemas/{}.graphql", case.schema_name)).unwrap();
        let (s1, s2) = (Schema::parse(&text).unwrap(), Schema::parse(&text).unwrap());
        let a = observe(&s1, &case.schema_name, &case.query, &case.arguments);
        let b = observe(&s2, &case.schema_name, &case.query, &case.arguments);
        assert!(a == b, "two compilations/executions of the same query in one process differ");
        eprintln!("VERIF-GRID-DIGEST {} {:016x}", case.name, fnv(&a));
        n += 1;
    }
    // frontend errors are part of the statement: the repository's error corpus
    let mut names: Vec<String> = std::fs::read_dir("test_data/tests/frontend_errors").unwrap().filter_map(|e| e.ok()).map(|e| e.file_name().to_string_lossy().to_string()).filter(|n| n.ends_with(".graphql.ron")).collect();
    names.sort();
    for name in names {
        let q: crate::test_types::TestGraphQLQuery = ron::from_str(&std::fs::read_to_string(format!("test_data/tests/frontend_errors/{name}")).unwrap()).unwrap();
        let text = std::fs::read_to_string(format!("test_data/schemas/{}.graphql", q.schema_name)).unwrap();
        let (s1, s2) = (Schema::parse(&text).unwrap(), Schema::parse(&text).unwrap());
        let empty = std::collections::BTreeMap::new();
        let a = observe(&s1, "other", &q.query, &empty);
        assert!(a == observe(&s2, "other", &q.query, &empty), "two compilations of the same erroneous query differ");
        eprintln!("VERIF-GRID-DIGEST err:{} {:016x}", name, fnv(&a));
        n += 1;
    }
    // erroneous queries whose error carries several items (the repository's error corpus has one item per error)
    const EXTRA_ERRORS: [(&str, &str); 11] = [
        ("five_unused_tags", r#"{ Number(max: 3) { value @output @tag(name: "echo") name @tag(name: "charlie") @tag(name: "delta") successor { value @tag(name: "bravo") name @tag(name: "alpha") } } }"#),
        ("two_unused_tags_one_used", r#"{ Number(max: 3) { value @output @tag(name: "zulu") name @tag(name: "kilo") successor { value @tag(name: "mike") @filter(op: ">", value: ["%zulu"]) } } }"#),
        ("three_duplicated_outputs", r#"{ Number(max: 3) { value @output(name: "a") @output(name: "b") name @output(name: "a") successor { value @output(name: "b") name @output(name: "c") predecessor { name @output(name: "c") value @output(name: "a") } } } }"#),
        ("several_duplicated_tags", r#"{ Number(max: 3) { value @output @tag(name: "t") @tag(name: "u") name @tag(name: "t") successor { value @tag(name: "u") @filter(op: ">", value: ["%t"]) @filter(op: ">", value: ["%u"]) } } }"#),
        ("several_filter_type_errors", r#"{ Number(max: 3) { value @output @filter(op: "has_prefix", value: ["$a"]) @filter(op: "contains", value: ["$b"]) name @filter(op: "one_of", value: ["$c"]) @filter(op: "<", value: ["$c"]) vowelsInName @filter(op: "regex", value: ["$d"]) } }"#),
        ("several_undefined_tags", r#"{ Number(max: 3) { value @output @filter(op: ">", value: ["%nope"]) @filter(op: "<", value: ["%never"]) name @filter(op: "=", value: ["%also_not"]) } }"#),
        ("several_bad_edge_parameters", r#"{ Number(max: "x", min: "y", extra: 3) { value @output multiple { value @output(name: "m") } } }"#),
        ("errors_on_four_vertices", r#"{ Number(max: 3) { value @output @filter(op: "has_prefix", value: ["$a"]) successor { name @filter(op: "<", value: ["%nope1"]) predecessor { vowelsInName @filter(op: "regex", value: ["$b"]) successor { value @filter(op: "contains", value: ["%nope2"]) } } } } }"#),
        ("errors_on_three_vertices_in_a_fold", r#"{ Number(max: 3) { value @output multiple(max: 2) @fold { value @filter(op: "has_suffix", value: ["$a"]) successor { name @filter(op: "one_of", value: ["%nope1"]) predecessor { vowelsInName @filter(op: ">", value: ["$b"]) @output(name: "z") } } } } }"#),
        ("errors_on_sibling_edges", r#"{ Number(max: 3) { value @output successor { value @filter(op: "regex", value: ["$a"]) } predecessor { value @filter(op: "has_prefix", value: ["$b"]) } multiple(max: 2) { name @filter(op: "contains", value: ["$c"]) } e2: successor { vowelsInName @filter(op: "<", value: ["$d"]) } } }"#),
        ("several_nonexistent_paths", r#"{ Number(max: 3) { value @output nope @output never { value @output(name: "q") } successor { alsonot @output } } }"#),
    ];
    for (name, query) in EXTRA_ERRORS {
        vk::grid_case(format_args!("extra error {}", name));
        let text = std::fs::read_to_string("test_data/schemas/numbers.graphql").unwrap();
        let empty = std::collections::BTreeMap::new();
        let first = observe(&Schema::parse(&text).unwrap(), "other", query, &empty);
        assert!(first.starts_with("frontend-error"), "harness query unexpectedly accepted");
        for _ in 0..6 {
            assert!(first == observe(&Schema::parse(&text).unwrap(), "other", query, &empty), "two compilations of the same erroneous query differ");
        }
        eprintln!("VERIF-GRID-DIGEST xerr:{} {:016x}", name, fnv(&first));
        n += 1;
    }
    // execution-time argument errors carrying several items
    {
        let text = std::fs::read_to_string("test_data/schemas/numbers.graphql").unwrap();
        let q = r#"{ Number(min: 0, max: 3) { value @output @filter(op: ">", value: ["$a"]) @filter(op: "<", value: ["$b"]) name @filter(op: "!=", value: ["$c"]) @filter(op: "has_prefix", value: ["$d"]) } }"#;
        let arg_sets: [(&str, Vec<(&str, FieldValue)>); 4] = [
            ("six unused arguments", vec![("a", FieldValue::Int64(0)), ("b", FieldValue::Int64(9)), ("c", FieldValue::String("x".into())), ("d", FieldValue::String("t".into())), ("zulu", FieldValue::Int64(1)), ("kilo", FieldValue::Int64(2)), ("mike", FieldValue::Int64(3)), ("echo", FieldValue::Int64(4)), ("alpha", FieldValue::Int64(5)), ("delta", FieldValue::Int64(6))]),
            ("four missing arguments", vec![]),
            ("four ill-typed arguments", vec![("a", FieldValue::String("x".into())), ("b", FieldValue::Null), ("c", FieldValue::Int64(1)), ("d", FieldValue::Boolean(true))]),
            ("missing, unused and ill-typed at once", vec![("a", FieldValue::String("x".into())), ("zulu", FieldValue::Int64(1)), ("kilo", FieldValue::Int64(2)), ("mike", FieldValue::Int64(3))]),
        ];
        for (label, args) in arg_sets {
            vk::grid_case(format_args!("argument error: {}", label));
            let args: std::collections::BTreeMap<Arc<str>, FieldValue> = args.into_iter().map(|(k, v)| (Arc::from(k), v)).collect();
            let first = observe(&Schema::parse(&text).unwrap(), "numbers", q, &args);
            assert!(first.contains("argument-error"), "harness arguments unexpectedly accepted");
            for _ in 0..8 { assert!(first == observe(&Schema::parse(&text).unwrap(), "numbers", q, &args), "two executions with the same erroneous arguments report different errors"); }
            eprintln!("VERIF-GRID-DIGEST argerr:{} {:016x}", label, fnv(&first));
            n += 1;
        }
    }
    vk::grid_done("c14_grid_determinism", n);
}
