// @target trustfall_core/src/ir/value.rs
// @module verif_c16
// @fn TransparentValue
use super::*;
use super::{FieldValue, TransparentValue};
use crate::verif_spec::mk_scalar;
use crate::verif_vk as vk;

// @harness c16_transparent_roundtrip_scalars tier=quick kind=complete
// @ob FieldValue -> TransparentValue -> FieldValue is the identity (same variant, same payload) for every scalar value: null, all Int64, all Uint64, all finite Float64, booleans
#[kani::proof]
#[kani::unwind(2)]
pub(crate) fn c16_transparent_roundtrip_scalars() {
    let s = vk::any_u8();
    verif_split5!(s, k => {
        let v = mk_scalar(k);
        let t: TransparentValue = v.clone().into();
        let back: FieldValue = t.into();
        verif_cover!(true, "kind reached");
        assert!(core::mem::discriminant(&back) == core::mem::discriminant(&v), "the variant survives (Int64 stays Int64, Uint64 stays Uint64)");
        assert!(back == v && back.structural_eq(&v), "the value survives");
        core::mem::forget((v, back));
    });
}

// @harness c16_negative_control tier=quick kind=complete expect=fail
// @ob (control) claims the round trip turns every Uint64 into an Int64: must FAIL
#[kani::proof]
#[kani::unwind(2)]
pub(crate) fn c16_negative_control() {
    let v = FieldValue::Uint64(vk::any_u64());
    let t: TransparentValue = v.into();
    let back: FieldValue = t.into();
    assert!(matches!(back, FieldValue::Int64(_)), "control: Uint64 becomes Int64 (false)");
}
