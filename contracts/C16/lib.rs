// @target trustfall_core/src/lib.rs
// @module verif_c16b
// @cfg all(test, verif_replay)
// @fn trustfall_core/src/ir/types/base.rs::Type::parse
// @fn trustfall_core/src/ir/types/base.rs::from_type
// @fn trustfall_core/src/ir/mod.rs::IRQuery
//
// Round trips that run third-party format code (serde_json, ron, the GraphQL type parser): bounded
// native stand-ins.
use crate::ir::{FieldValue, IRQuery, IndexedQuery, TransparentValue, Type};
use crate::verif_corpus::{compile, corpus};
use crate::verif_vk as vk;
use std::collections::BTreeSet;
use std::sync::Arc;

fn all_types(base: &str, max_depth: usize) -> Vec<Type> {
    // every nullability combination of every list depth 0..=max_depth
    let mut out = Vec::new();
    for d in 0..=max_depth { for bits in 0..(1u32 << (d + 1)) {
        let mut t = Type::new_named_type(base, bits & 1 != 0);
        for level in 0..d { t = Type::new_list_type(t, bits & (1 << (level + 1)) != 0); }
        out.push(t);
    } }
    out
}

// @grid c16_grid_type_text_roundtrip tier=quick bound="every type over bases {Int, String, Vertex_1} with list depth 0..5 and every nullability combination (126 per base), plus the two depth-30 extremes"
// @ob Type::parse(t.to_string()) == t; serde_json and ron round trips of a Type return an equal Type
pub(crate) fn c16_grid_type_text_roundtrip() {
    let mut n = 0u64;
    let mut types: Vec<Type> = ["Int", "String", "Vertex_1"].iter().flat_map(|b| all_types(b, 5)).collect();
    for nullable in [false, true] { let mut t = Type::new_named_type("Int", nullable); for _ in 0..30 { t = Type::new_list_type(t, nullable); } types.push(t); }
    let mut seen = BTreeSet::new();
    for t in types {
        let text = t.to_string();
        vk::grid_case(format_args!("{}", text));
        assert!(seen.insert(text.clone()), "two different types render to the same text");
        assert!(Type::parse(&text).expect("rendered type parses") == t, "Type::parse(to_string) is not the identity");
        let j = serde_json::to_string(&t).unwrap();
        assert!(serde_json::from_str::<Type>(&j).unwrap() == t, "serde_json round trip of a Type");
        let r = ron::to_string(&t).unwrap();
        assert!(ron::from_str::<Type>(&r).unwrap() == t, "ron round trip of a Type");
        n += 1;
    }
    vk::grid_done("c16_grid_type_text_roundtrip", n);
}

fn sample_values() -> Vec<FieldValue> {
    let mut v: Vec<FieldValue> = vk::GRID_I64.iter().map(|x| FieldValue::Int64(*x)).chain(vk::GRID_U64.iter().map(|x| FieldValue::Uint64(*x))).collect();
    v.extend([FieldValue::Null, FieldValue::Boolean(true), FieldValue::Boolean(false), FieldValue::Float64(0.0), FieldValue::Float64(-0.0), FieldValue::Float64(1.5), FieldValue::Float64(-2.25e300),
              FieldValue::Float64(f64::MIN_POSITIVE), FieldValue::Float64(f64::MAX), FieldValue::String(Arc::from("")), FieldValue::String(Arc::from("a \"quoted\" \u{1F600} string\n")), FieldValue::Enum(Arc::from("VARIANT"))]);
    let l = |x: Vec<FieldValue>| FieldValue::List(x.into());
    v.extend([l(vec![]), l(vec![FieldValue::Null, FieldValue::Int64(-1), FieldValue::Uint64(u64::MAX)]), l(vec![l(vec![FieldValue::String(Arc::from("x"))]), l(vec![]), FieldValue::Null])]);
    v
}

// @grid c16_grid_value_roundtrips tier=quick bound="38 field values: boundary integers in both representations, floats incl. -0.0/extremes, strings with escapes, enum, nested lists"
// @ob serde_json and ron round trips of a FieldValue return an equal value of the same variant; the untagged TransparentValue conversion and its JSON round trip return an equal value
pub(crate) fn c16_grid_value_roundtrips() {
    let mut n = 0u64;
    for v in sample_values() {
        vk::grid_case(format_args!("{:?}", v));
        let j = serde_json::to_string(&v).unwrap();
        let back: FieldValue = serde_json::from_str(&j).unwrap();
        assert!(back == v && std::mem::discriminant(&back) == std::mem::discriminant(&v), "serde_json round trip of a FieldValue");
        let r = ron::to_string(&v).unwrap();
        let back: FieldValue = ron::from_str(&r).unwrap();
        assert!(back == v && std::mem::discriminant(&back) == std::mem::discriminant(&v), "ron round trip of a FieldValue");
        let t: TransparentValue = v.clone().into();
        let back: FieldValue = t.clone().into();
        assert!(back == v && std::mem::discriminant(&back) == std::mem::discriminant(&v), "TransparentValue conversion round trip");
        // untagged JSON form and back: equal value (an enum comes back as a string, a non-negative Int64 may come back as Uint64/Int64 with the same number)
        let tj = serde_json::to_string(&t).unwrap();
        let tb: TransparentValue = serde_json::from_str(&tj).unwrap();
        let back: FieldValue = tb.into();
        if !matches!(v, FieldValue::Enum(_)) { assert!(back == v, "untagged JSON round trip returns an equal value"); }
        n += 1;
    }
    vk::grid_done("c16_grid_value_roundtrips", n);
}

// @grid c16_grid_ir_roundtrip tier=quick bound="every compiled query of the corpus (repository valid queries + 8 extra shapes)"
// @ob serializing and deserializing a compiled query (IRQuery, ron and serde_json) returns an equal IRQuery, which indexes to an equal IndexedQuery; compiling the same text twice yields equal compiled queries
pub(crate) fn c16_grid_ir_roundtrip() {
    let mut n = 0u64;
    for case in corpus() {
        vk::grid_case(format_args!("{}", case.name));
        let Some(iq) = compile(&case) else { continue; };
        let again = compile(&case).unwrap();
        assert!(*again == *iq, "compiling the same query twice gives different results");
        let r = ron::to_string(&iq.ir_query).unwrap();
        let back: IRQuery = ron::from_str(&r).unwrap();
        assert!(back == iq.ir_query, "ron round trip of a compiled query");
        let j = serde_json::to_string(&iq.ir_query).unwrap();
        let back: IRQuery = serde_json::from_str(&j).unwrap();
        assert!(back == iq.ir_query, "serde_json round trip of a compiled query");
        let reindexed: IndexedQuery = back.try_into().expect("round-tripped IR indexes");
        assert!(reindexed == *iq, "re-indexing the round-tripped IR gives a different IndexedQuery");
        for v in case.arguments.values() {
            let j = serde_json::to_string(v).unwrap();
            assert!(serde_json::from_str::<FieldValue>(&j).unwrap() == *v, "argument value round trip");
        }
        n += 1;
    }
    vk::grid_done("c16_grid_ir_roundtrip", n);
}
