// @target trustfall_core/src/lib.rs
// @module verif_c02
// @cfg all(test, verif_replay)
// @fn trustfall_core/src/interpreter/execution.rs::QueryCarrier
// @fn trustfall_core/src/interpreter/execution.rs::compute_fold
//
// The statement as a relation between executions of the real engine: an order-preserving adapter that
// reads ahead on its input contexts (eagerly, in chunks, also before producing its first output) must
// yield exactly the rows of the adapter that does not. Schedules are enumerated (chunk-size sequences),
// queries come from the enumerated family and the corpus. Bounded native stand-in; no verifier here
// can quantify over pull schedules of re-entrant iterator closures (DESIGN.md, C02).
use crate::interpreter::execution::interpret_ir;
use crate::interpreter::{Adapter, AsVertex, ContextIterator, ContextOutcomeIterator, ResolveEdgeInfo, ResolveInfo, VertexIterator};
use crate::ir::{EdgeParameters, FieldValue};
use crate::numbers_interpreter::{NumbersAdapter, NumbersVertex};
use crate::verif_corpus::{corpus, Row};
use crate::verif_family::{family_args, family_depth1_and_pairs, query_text};
use crate::verif_batching::{Batching, SCHEDULES};
use crate::verif_vk as vk;
use std::cell::Cell;
use std::collections::{BTreeMap, BTreeSet, VecDeque};
use std::rc::Rc;
use std::sync::Arc;

// @grid c02_grid_read_ahead_independence tier=quick bound="[+ seeded random accepted documents, VERIF_SEED] 921 family queries (single edges and sibling pairs x scopes x filters) and every numbers query of the corpus; 5 chunk-size schedules (all 1, all 4, and three mixed 2-bit sequences), read-ahead on both the inputs and the outputs of every resolver, first chunk fetched inside the resolver call (5 schedules) or on the first poll (3 schedules)"
// @ob the sequence of result rows is identical whatever chunk sizes an order-preserving adapter uses to pull its input contexts and buffer its outputs, including eager pre-fetching before its first output; the engine does not crash when an adapter reads ahead
pub(crate) fn c02_grid_read_ahead_independence() {
    let mut n = 0u64;
    let mut failures = BTreeSet::new();
    let schema = NumbersAdapter::new();
    let mut cases: Vec<(String, String, BTreeMap<Arc<str>, FieldValue>)> = Vec::new();
    for t in family_depth1_and_pairs() { let q = query_text(&t, 0, 6); let a = family_args(&q).into_iter().map(|(k, v)| (Arc::from(k), v)).collect(); cases.push((q.clone(), q, a)); }
    for c in crate::verif_corpus::corpus_with_random(150, 2) { if c.schema_name == "numbers" { cases.push((c.name.clone(), c.query.clone(), c.arguments.clone())); } }
    for (label, q, args) in cases {
        vk::grid_case(format_args!("{}", label));
        let Ok(iq) = crate::frontend::parse(schema.schema(), &q) else { continue; };
        let Ok(plain) = interpret_ir(Arc::new(NumbersAdapter::new()), iq.clone(), Arc::new(args.clone())) else { continue; };
        let plain: Vec<Row> = plain.take(3000).collect();
        for (schedule, call_time) in SCHEDULES.into_iter().map(|s| (s, true)).chain([(SCHEDULES[1], false), (SCHEDULES[2], false), (SCHEDULES[4], false)]) {
            let (iq2, args2) = (iq.clone(), args.clone());
            let got = std::panic::catch_unwind(std::panic::AssertUnwindSafe(move || {
                let adapter = Arc::new(Batching { inner: NumbersAdapter::new(), sizes: Rc::new(Cell::new(schedule)), call_time });
                interpret_ir(adapter, iq2, Arc::new(args2)).expect("accepted").take(3000).collect::<Vec<Row>>()
            }));
            match got {
                Ok(rows) => if rows != plain { failures.insert(format!("rows differ under read-ahead schedule {schedule:#x} (call_time={call_time}): {label}")); },
                Err(p) => { let m = p.downcast_ref::<String>().cloned().or_else(|| p.downcast_ref::<&str>().map(|s| s.to_string())).unwrap_or_default();
                            failures.insert(format!("engine panicked under read-ahead ({}): {label}", m.lines().next().unwrap_or(""))); }
            }
        }
        n += 1;
    }
    vk::grid_done("c02_grid_read_ahead_independence", n);
    if !failures.is_empty() { panic!("results depend on adapter read-ahead: {{{}}}", failures.into_iter().take(6).collect::<Vec<_>>().join("; ")); }
}
