// @target trustfall_core/src/lib.rs
// @module verif_c02
// @cfg all(test, verif_replay)
// @fn trustfall_core/src/interpreter/execution.rs::QueryCarrier
// @fn trustfall_core/src/interpreter/execution.rs::compute_fold
//
// The statement as a relation between executions of the real engine: an order-preserving adapter that
// reads ahead on its input contexts (eagerly, in chunks, also before producing its first output) must
// yield exactly the rows of the adapter that does not. Schedules are enumerated (chunk-size sequences),
// queries come from the enumerated family and the corpus. Bounded native stand-in; no verifier here
// can quantify over pull schedules of re-entrant iterator closures (DESIGN.md, C02).
use crate::interpreter::execution::interpret_ir;
use crate::interpreter::{Adapter, AsVertex, ContextIterator, ContextOutcomeIterator, ResolveEdgeInfo, ResolveInfo, VertexIterator};
use crate::ir::{EdgeParameters, FieldValue};
use crate::numbers_interpreter::{NumbersAdapter, NumbersVertex};
use crate::verif_corpus::{corpus, Row};
use crate::verif_family::{family_args, family_depth1_and_pairs, query_text};
use crate::verif_vk as vk;
use std::cell::Cell;
use std::collections::{BTreeMap, BTreeSet, VecDeque};
use std::rc::Rc;
use std::sync::Arc;

/// Pulls `chunk` items from the inner iterator at a time - the first chunk eagerly at construction.
struct ReadAhead<I: Iterator> { inner: I, buf: VecDeque<I::Item>, sizes: Rc<Cell<u64>> }
impl<I: Iterator> ReadAhead<I> {
    fn next_size(sizes: &Rc<Cell<u64>>) -> usize { let s = sizes.get(); sizes.set(s.rotate_right(2)); (s & 3) as usize + 1 }
    fn new(inner: I, sizes: Rc<Cell<u64>>) -> Self {
        let mut r = ReadAhead { inner, buf: VecDeque::new(), sizes };
        let k = Self::next_size(&r.sizes);
        r.buf.extend(r.inner.by_ref().take(k));
        r
    }
}
impl<I: Iterator> Iterator for ReadAhead<I> {
    type Item = I::Item;
    fn next(&mut self) -> Option<I::Item> {
        if self.buf.is_empty() { let k = Self::next_size(&self.sizes); self.buf.extend(self.inner.by_ref().take(k)); }
        self.buf.pop_front()
    }
}

struct Batching { inner: NumbersAdapter, sizes: Rc<Cell<u64>> }
impl<'a> Adapter<'a> for Batching {
    type Vertex = NumbersVertex;
    fn resolve_starting_vertices(&self, edge_name: &Arc<str>, parameters: &EdgeParameters, resolve_info: &ResolveInfo) -> VertexIterator<'a, Self::Vertex> {
        Box::new(ReadAhead::new(self.inner.resolve_starting_vertices(edge_name, parameters, resolve_info), self.sizes.clone()))
    }
    fn resolve_property<V: AsVertex<Self::Vertex> + 'a>(&self, contexts: ContextIterator<'a, V>, type_name: &Arc<str>, property_name: &Arc<str>, resolve_info: &ResolveInfo) -> ContextOutcomeIterator<'a, V, FieldValue> {
        let contexts: ContextIterator<'a, V> = Box::new(ReadAhead::new(contexts, self.sizes.clone()));
        Box::new(ReadAhead::new(self.inner.resolve_property(contexts, type_name, property_name, resolve_info), self.sizes.clone()))
    }
    fn resolve_neighbors<V: AsVertex<Self::Vertex> + 'a>(&self, contexts: ContextIterator<'a, V>, type_name: &Arc<str>, edge_name: &Arc<str>, parameters: &EdgeParameters, resolve_info: &ResolveEdgeInfo) -> ContextOutcomeIterator<'a, V, VertexIterator<'a, Self::Vertex>> {
        let contexts: ContextIterator<'a, V> = Box::new(ReadAhead::new(contexts, self.sizes.clone()));
        Box::new(ReadAhead::new(self.inner.resolve_neighbors(contexts, type_name, edge_name, parameters, resolve_info), self.sizes.clone()))
    }
    fn resolve_coercion<V: AsVertex<Self::Vertex> + 'a>(&self, contexts: ContextIterator<'a, V>, type_name: &Arc<str>, coerce_to_type: &Arc<str>, resolve_info: &ResolveInfo) -> ContextOutcomeIterator<'a, V, bool> {
        let contexts: ContextIterator<'a, V> = Box::new(ReadAhead::new(contexts, self.sizes.clone()));
        Box::new(ReadAhead::new(self.inner.resolve_coercion(contexts, type_name, coerce_to_type, resolve_info), self.sizes.clone()))
    }
}

// @grid c02_grid_read_ahead_independence tier=quick bound="921 family queries (single edges and sibling pairs x scopes x filters) and every numbers query of the corpus; 5 chunk-size schedules (all 1, all 4, and three mixed 2-bit sequences), read-ahead on both the inputs and the outputs of every resolver, first chunk fetched eagerly"
// @ob the sequence of result rows is identical whatever chunk sizes an order-preserving adapter uses to pull its input contexts and buffer its outputs, including eager pre-fetching before its first output; the engine does not crash when an adapter reads ahead
pub(crate) fn c02_grid_read_ahead_independence() {
    let mut n = 0u64;
    let mut failures = BTreeSet::new();
    let schema = NumbersAdapter::new();
    let mut cases: Vec<(String, String, BTreeMap<Arc<str>, FieldValue>)> = Vec::new();
    for t in family_depth1_and_pairs() { let q = query_text(&t, 0, 6); let a = family_args(&q).into_iter().map(|(k, v)| (Arc::from(k), v)).collect(); cases.push((q.clone(), q, a)); }
    for c in corpus() { if c.schema_name == "numbers" { cases.push((c.name.clone(), c.query.clone(), c.arguments.clone())); } }
    for (label, q, args) in cases {
        vk::grid_case(format_args!("{}", label));
        let Ok(iq) = crate::frontend::parse(schema.schema(), &q) else { continue; };
        let Ok(plain) = interpret_ir(Arc::new(NumbersAdapter::new()), iq.clone(), Arc::new(args.clone())) else { continue; };
        let plain: Vec<Row> = plain.take(3000).collect();
        for schedule in [0u64, u64::MAX, 0x1B1B_1B1B_1B1B_1B1B, 0xE4E4_E4E4_E4E4_E4E4, 0x39C6_39C6_39C6_39C6] {
            let (iq2, args2) = (iq.clone(), args.clone());
            let got = std::panic::catch_unwind(std::panic::AssertUnwindSafe(move || {
                let adapter = Arc::new(Batching { inner: NumbersAdapter::new(), sizes: Rc::new(Cell::new(schedule)) });
                interpret_ir(adapter, iq2, Arc::new(args2)).expect("accepted").take(3000).collect::<Vec<Row>>()
            }));
            match got {
                Ok(rows) => if rows != plain { failures.insert(format!("rows differ under read-ahead schedule {schedule:#x}: {label}")); },
                Err(p) => { let m = p.downcast_ref::<String>().cloned().or_else(|| p.downcast_ref::<&str>().map(|s| s.to_string())).unwrap_or_default();
                            failures.insert(format!("engine panicked under read-ahead ({}): {label}", m.lines().next().unwrap_or(""))); }
            }
        }
        n += 1;
    }
    vk::grid_done("c02_grid_read_ahead_independence", n);
    if !failures.is_empty() { panic!("results depend on adapter read-ahead: {{{}}}", failures.into_iter().take(6).collect::<Vec<_>>().join("; ")); }
}
