// @target trustfall_core/src/lib.rs
// @module verif_c05
// @cfg all(test, verif_replay)
// @fn trustfall_core/src/interpreter/hints/vertex_info.rs::required_properties
// @fn trustfall_core/src/interpreter/execution.rs::compute_fold
//
// Contract of VertexInfo::required_properties (from the statement): at every resolve_property call the
// engine makes, the requested property is in resolve_info.required_properties() for that vertex.
// The contract quantifies over the engine's calls, so it is checked at the call boundary: a recording
// adapter wraps the repository's numbers adapter and evaluates the contract on every real call while
// the real engine executes a family of queries. Bounded native stand-in, not a proof (the IR
// construction needed to state it over symbolic queries is out of CBMC's reach, see DESIGN.md).
use crate::interpreter::execution::interpret_ir;
use crate::interpreter::{Adapter, AsVertex, ContextIterator, ContextOutcomeIterator, ResolveEdgeInfo, ResolveInfo, VertexInfo, VertexIterator};
use crate::ir::{EdgeParameters, FieldValue};
use crate::numbers_interpreter::{NumbersAdapter, NumbersVertex};
use crate::verif_vk as vk;
use std::cell::RefCell;
use std::collections::{BTreeMap, BTreeSet};
use std::rc::Rc;
use std::sync::Arc;

struct Recorder { inner: NumbersAdapter, missing: Rc<RefCell<BTreeSet<String>>>, calls: Rc<RefCell<u64>> }

impl<'a> Adapter<'a> for Recorder {
    type Vertex = NumbersVertex;
    fn resolve_starting_vertices(&self, edge_name: &Arc<str>, parameters: &EdgeParameters, resolve_info: &ResolveInfo) -> VertexIterator<'a, Self::Vertex> {
        self.inner.resolve_starting_vertices(edge_name, parameters, resolve_info)
    }
    fn resolve_property<V: AsVertex<Self::Vertex> + 'a>(&self, contexts: ContextIterator<'a, V>, type_name: &Arc<str>, property_name: &Arc<str>, resolve_info: &ResolveInfo) -> ContextOutcomeIterator<'a, V, FieldValue> {
        *self.calls.borrow_mut() += 1;
        let listed = resolve_info.required_properties().any(|r| r.name.as_ref() == property_name.as_ref());
        if !listed {
            self.missing.borrow_mut().insert(format!("resolve_property({}, {}) at vertex {:?} not in required_properties {:?}", type_name, property_name, resolve_info.vid(),
                resolve_info.required_properties().map(|r| r.name.to_string()).collect::<Vec<_>>()));
        }
        self.inner.resolve_property(contexts, type_name, property_name, resolve_info)
    }
    fn resolve_neighbors<V: AsVertex<Self::Vertex> + 'a>(&self, contexts: ContextIterator<'a, V>, type_name: &Arc<str>, edge_name: &Arc<str>, parameters: &EdgeParameters, resolve_info: &ResolveEdgeInfo) -> ContextOutcomeIterator<'a, V, VertexIterator<'a, Self::Vertex>> {
        self.inner.resolve_neighbors(contexts, type_name, edge_name, parameters, resolve_info)
    }
    fn resolve_coercion<V: AsVertex<Self::Vertex> + 'a>(&self, contexts: ContextIterator<'a, V>, type_name: &Arc<str>, coerce_to_type: &Arc<str>, resolve_info: &ResolveInfo) -> ContextOutcomeIterator<'a, V, bool> {
        self.inner.resolve_coercion(contexts, type_name, coerce_to_type, resolve_info)
    }
}

fn check_query(label: &str, query: &str, args: &[(&str, FieldValue)], failures: &mut BTreeSet<String>) -> u64 {
    vk::grid_case(format_args!("{}", label));
    let missing = Rc::new(RefCell::new(BTreeSet::new()));
    let calls = Rc::new(RefCell::new(0u64));
    let adapter = Arc::new(Recorder { inner: NumbersAdapter::new(), missing: missing.clone(), calls: calls.clone() });
    let indexed = match crate::frontend::parse(adapter.inner.schema(), query) { Ok(q) => q, Err(e) => { failures.insert(format!("{label}: harness query rejected by the frontend: {e}")); return 0; } };
    let args: BTreeMap<Arc<str>, FieldValue> = args.iter().map(|(k, v)| (Arc::from(*k), v.clone())).collect();
    let rows = interpret_ir(adapter, indexed, Arc::new(args)).expect("arguments accepted").count();
    let _ = rows;
    for m in missing.borrow().iter() { failures.insert(format!("{label}: {m}")); }
    let c = *calls.borrow();
    c
}

// @grid c05_grid_required_properties tier=quick bound="[+ seeded random accepted documents, VERIF_SEED] every numbers query of the corpus (repository valid queries + 20 extra shapes) and 14 query shapes: outputs, filters, same-component tags, tags used only inside a fold / a nested fold / an optional scope / a fold-count filter, fold-count tags, __typename, recursion and coercion"
// @ob every resolve_property(type, name) call the engine makes for a vertex names a property listed by resolve_info.required_properties() for that vertex
pub(crate) fn c05_grid_required_properties() {
    let mut failures = BTreeSet::new();
    let mut n = 0u64;
    let queries: [(&str, &str); 14] = [
        ("output only", r#"{ Number(min: 1, max: 4) { value @output name @output } }"#),
        ("filter only", r#"{ Number(min: 1, max: 4) { value @filter(op: ">", value: ["$x"]) name @output } }"#),
        ("tag used in same component", r#"{ Number(min: 1, max: 4) { value @tag(name: "v") successor { value @output @filter(op: ">", value: ["%v"]) } } }"#),
        ("tag used only by a later vertex, not output", r#"{ Number(min: 1, max: 4) { name @tag(name: "n") successor { name @output @filter(op: "!=", value: ["%n"]) } } }"#),
        ("tag used only inside a fold", r#"{ Number(min: 2, max: 4) { name @output value @tag(name: "v") multiple(max: 3) @fold { value @output(name: "m") @filter(op: ">", value: ["%v"]) } } }"#),
        ("tag used only inside a nested fold", r#"{ Number(min: 2, max: 4) { name @output value @tag(name: "v") multiple(max: 3) @fold { value @output(name: "m") divisor @fold { value @output(name: "d") @filter(op: "<=", value: ["%v"]) } } } }"#),
        ("tag from an inner vertex used inside a fold", r#"{ Number(min: 2, max: 4) { name @output successor { value @tag(name: "s") } multiple(max: 3) @fold { value @output(name: "m") @filter(op: ">", value: ["%s"]) } } }"#),
        ("tag used only in a fold-count filter", r#"{ Number(min: 2, max: 4) { name @output value @tag(name: "v") multiple(max: 3) @fold @transform(op: "count") @filter(op: "<", value: ["%v"]) { value @output(name: "m") } } }"#),
        ("fold-count tag used later", r#"{ Number(min: 2, max: 4) { value @output multiple(max: 3) @fold @transform(op: "count") @tag(name: "c") { value @output(name: "m") } successor { value @filter(op: ">=", value: ["%c"]) } } }"#),
        ("tag inside optional used inside a fold", r#"{ Number(min: 0, max: 3) { name @output predecessor @optional { value @tag(name: "p") } multiple(max: 3) @fold { value @output(name: "m") @filter(op: ">", value: ["%p"]) } } }"#),
        ("typename output and filter", r#"{ Number(min: 1, max: 5) { __typename @output @filter(op: "!=", value: ["$t"]) value @output } }"#),
        ("recursion with tag", r#"{ Number(min: 3, max: 4) { value @tag(name: "v") successor @recurse(depth: 2) { value @output @filter(op: ">=", value: ["%v"]) } } }"#),
        ("coercion and filter", r#"{ Number(min: 1, max: 6) { ... on Prime { value @output @filter(op: "<", value: ["$x"]) } } }"#),
        ("tag used both in the component and in a fold", r#"{ Number(min: 2, max: 4) { value @tag(name: "v") successor { value @filter(op: ">", value: ["%v"]) } multiple(max: 3) @fold { value @output(name: "m") @filter(op: ">", value: ["%v"]) } } }"#),
    ];
    for (label, q) in queries {
        let args: Vec<(&str, FieldValue)> = if q.contains("$x") { vec![("x", FieldValue::Int64(4))] } else if q.contains("$t") { vec![("t", FieldValue::String(Arc::from("Prime")))] } else { vec![] };
        let calls = check_query(label, q, &args, &mut failures);
        if calls == 0 && !failures.iter().any(|f| f.starts_with(label)) { failures.insert(format!("{label}: vacuous - the engine made no resolve_property call")); }
        n += 1;
    }
    // the same contract on every numbers query of the corpus (repository queries + extra shapes)
    for case in crate::verif_corpus::corpus_with_random(200, 5) {
        if case.schema_name != "numbers" || crate::verif_corpus::compile(&case).is_none() { continue; }
        let args: Vec<(&str, FieldValue)> = case.arguments.iter().map(|(k, v)| (k.as_ref(), v.clone())).collect();
        let accepted = crate::interpreter::InterpretedQuery::from_query_and_arguments(crate::verif_corpus::compile(&case).unwrap(), Arc::new(case.arguments.clone())).is_ok();
        if !accepted { continue; }
        check_query(&case.name, &case.query, &args, &mut failures);
        n += 1;
    }
    vk::grid_done("c05_grid_required_properties", n);
    if !failures.is_empty() { panic!("required-properties contract failures: {{{}}}", failures.into_iter().collect::<Vec<_>>().join("; ")); }
}
