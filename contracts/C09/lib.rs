// @target trustfall_core/src/lib.rs
// @module verif_c09
// @cfg all(test, verif_replay)
// @fn trustfall_core/src/interpreter/execution.rs::interpret_ir
// @fn trustfall_core/src/frontend/tags.rs::reference_tag
// @fn trustfall_core/src/interpreter/filtering.rs::apply_filter_with_static_argument_value
// @fn trustfall_core/src/interpreter/filtering.rs::make_comparison_op_func
//
// "Executing an accepted query never panics" is a reachability property of the whole pipeline: not
// decidable by function contracts (DESIGN.md). What is checked here is the call-boundary contract
// "what validation accepts, execution tolerates" on concrete accepted queries that exercise the
// boundaries the property names (invalid regex strings, list-typed operands of ordering filters,
// repeated tag uses, fold-count arguments of any sign/magnitude): each query is compiled by the real
// frontend, validated by the real argument validation and executed by the real engine over the
// repository's numbers adapter; a panic is a failed obligation. Bounded native stand-in, not a proof.
use crate::interpreter::execution::interpret_ir;
use crate::ir::FieldValue;
use crate::numbers_interpreter::NumbersAdapter;
use crate::verif_vk as vk;
use std::collections::{BTreeMap, BTreeSet};
use std::sync::Arc;

pub(crate) enum Outcome { Rows(usize), RejectedByFrontend(String), RejectedArguments(String), Panicked(String) }

pub(crate) fn run_query(query: &str, args: &[(&str, FieldValue)]) -> Outcome {
    let adapter = Arc::new(NumbersAdapter::new());
    let indexed = match crate::frontend::parse(adapter.schema(), query) { Ok(q) => q, Err(e) => return Outcome::RejectedByFrontend(format!("{e}")) };
    let args: BTreeMap<Arc<str>, FieldValue> = args.iter().map(|(k, v)| (Arc::from(*k), v.clone())).collect();
    let attempt = std::panic::catch_unwind(std::panic::AssertUnwindSafe(|| {
        match interpret_ir(adapter.clone(), indexed.clone(), Arc::new(args.clone())) {
            Ok(rows) => Ok(rows.count()),
            Err(e) => Err(format!("{e}")),
        }
    }));
    match attempt {
        Ok(Ok(n)) => Outcome::Rows(n),
        Ok(Err(e)) => Outcome::RejectedArguments(e),
        Err(p) => Outcome::Panicked(p.downcast_ref::<String>().cloned().or_else(|| p.downcast_ref::<&str>().map(|s| s.to_string())).unwrap_or_default()),
    }
}

fn finish(name: &str, n: u64, failures: BTreeSet<String>) {
    vk::grid_done(name, n);
    if !failures.is_empty() { panic!("accepted query panicked: {{{}}}", failures.into_iter().collect::<Vec<_>>().join("; ")); }
}
fn expect_no_panic(label: &str, query: &str, args: &[(&str, FieldValue)], must_be_accepted: bool, failures: &mut BTreeSet<String>) {
    vk::grid_case(format_args!("{} args={:?}", label, args));
    match run_query(query, args) {
        Outcome::Panicked(msg) => { failures.insert(format!("{label}: panic({})", msg.lines().next().unwrap_or(""))); }
        Outcome::RejectedByFrontend(e) if must_be_accepted => { failures.insert(format!("{label}: harness query unexpectedly rejected by the frontend: {e}")); }
        _ => {}
    }
}
fn ints() -> Vec<FieldValue> {
    vk::GRID_I64.iter().map(|x| FieldValue::Int64(*x)).chain(vk::GRID_U64.iter().map(|x| FieldValue::Uint64(*x))).collect()
}

// @grid c09_grid_fold_count_arguments tier=quick bound="fold-count filters =, !=, <, <=, >, >=, one_of, not_one_of with 17 boundary integer arguments in both representations / 5 lists; count output and count tag variants"
// @ob accepted fold-count queries with arguments of any sign/magnitude (negative, zero, > i64::MAX, empty list) run without panicking
pub(crate) fn c09_grid_fold_count_arguments() {
    let mut n = 0u64; let mut failures = BTreeSet::new();
    for op in ["=", "!=", "<", "<=", ">", ">="] { for a in ints() {
        let q = format!(r#"{{ Number(min: 1, max: 4) {{ value @output multiple(max: 3) @fold @transform(op: "count") @filter(op: "{op}", value: ["$x"]) @output(name: "cnt") {{ value @output(name: "m") }} }} }}"#);
        expect_no_panic(&format!("fold-count {op}"), &q, &[("x", a.clone())], true, &mut failures); n += 1;
        let q2 = format!(r#"{{ Number(min: 1, max: 4) {{ value @output multiple(max: 3) @fold @transform(op: "count") @filter(op: "{op}", value: ["$x"]) }} }}"#);
        expect_no_panic(&format!("fold-count-no-output {op}"), &q2, &[("x", a)], true, &mut failures); n += 1;
    } }
    let l = |v: Vec<FieldValue>| FieldValue::List(v.into());
    for op in ["one_of", "not_one_of"] { for a in [l(vec![]), l(vec![FieldValue::Int64(-3)]), l(vec![FieldValue::Uint64(u64::MAX), FieldValue::Int64(2)]), l(vec![FieldValue::Int64(0), FieldValue::Int64(0)]), l(vec![FieldValue::Int64(i64::MIN)])] {
        let q = format!(r#"{{ Number(min: 1, max: 4) {{ value @output multiple(max: 3) @fold @transform(op: "count") @filter(op: "{op}", value: ["$x"]) }} }}"#);
        expect_no_panic(&format!("fold-count {op}"), &q, &[("x", a)], true, &mut failures); n += 1;
    } }
    finish("c09_grid_fold_count_arguments", n, failures);
}

// @grid c09_grid_scalar_filter_arguments tier=quick bound="every scalar filter operator on Int / String properties with boundary arguments, null where accepted, tags from optional and non-optional scopes"
// @ob accepted scalar-filter queries run without panicking for every accepted argument value
pub(crate) fn c09_grid_scalar_filter_arguments() {
    let mut n = 0u64; let mut failures = BTreeSet::new();
    for op in ["=", "!=", "<", "<=", ">", ">="] { for a in ints() {
        let q = format!(r#"{{ Number(min: 0, max: 6) {{ value @output @filter(op: "{op}", value: ["$x"]) }} }}"#);
        expect_no_panic(&format!("value {op}"), &q, &[("x", a)], true, &mut failures); n += 1;
    } }
    for op in ["=", "!="] {
        let q = format!(r#"{{ Number(min: 0, max: 6) {{ value @output @filter(op: "{op}", value: ["$x"]) }} }}"#);
        expect_no_panic(&format!("value {op} null"), &q, &[("x", FieldValue::Null)], true, &mut failures); n += 1;
    }
    for op in ["has_prefix", "not_has_prefix", "has_suffix", "not_has_suffix", "has_substring", "not_has_substring", "=", "<", ">="] { for s in ["", "t", "two", "\u{1F600}"] {
        let q = format!(r#"{{ Number(min: 0, max: 21) {{ name @output @filter(op: "{op}", value: ["$x"]) }} }}"#);
        expect_no_panic(&format!("name {op}"), &q, &[("x", FieldValue::String(Arc::from(s)))], true, &mut failures); n += 1;
    } }
    // tags, including a tag from a nonexistent optional scope and a nullable tag (name of 21+ is null)
    for op in ["=", "!=", "<", "<=", ">", ">="] {
        let q = format!(r#"{{ Number(min: 19, max: 22) {{ name @tag(name: "t") successor {{ name @output @filter(op: "{op}", value: ["%t"]) }} }} }}"#);
        expect_no_panic(&format!("nullable tag {op}"), &q, &[], true, &mut failures); n += 1;
        let q = format!(r#"{{ Number(min: 0, max: 2) {{ predecessor @optional {{ value @tag(name: "t") }} successor {{ value @output @filter(op: "{op}", value: ["%t"]) }} }} }}"#);
        expect_no_panic(&format!("optional tag {op}"), &q, &[], true, &mut failures); n += 1;
    }
    finish("c09_grid_scalar_filter_arguments", n, failures);
}

// @grid c09_grid_repeated_tag_in_fold tier=quick bound="a tag defined outside a fold and used 1, 2 or 3 times inside it (same vertex / nested vertex / nested fold)"
// @ob a query that uses the same tag more than once inside a @fold is accepted by the frontend and runs without panicking
pub(crate) fn c09_grid_repeated_tag_in_fold() {
    let mut n = 0u64; let mut failures = BTreeSet::new();
    let queries = [
        ("tag used once in fold", r#"{ Number(min: 2, max: 4) { value @tag(name: "v") @output multiple(max: 3) @fold { value @output(name: "m") @filter(op: ">", value: ["%v"]) } } }"#),
        ("tag used twice on one vertex in fold", r#"{ Number(min: 2, max: 4) { value @tag(name: "v") @output multiple(max: 3) @fold { value @output(name: "m") @filter(op: ">", value: ["%v"]) @filter(op: "!=", value: ["%v"]) } } }"#),
        ("tag used on two vertices in fold", r#"{ Number(min: 2, max: 4) { value @tag(name: "v") @output multiple(max: 3) @fold { value @output(name: "m") @filter(op: ">", value: ["%v"]) successor { value @filter(op: ">", value: ["%v"]) } } } }"#),
        ("tag used in fold and nested fold", r#"{ Number(min: 2, max: 4) { value @tag(name: "v") @output multiple(max: 3) @fold { value @output(name: "m") @filter(op: ">", value: ["%v"]) divisor @fold { value @output(name: "d") @filter(op: "<=", value: ["%v"]) } } } }"#),
        ("tag used twice in nested fold", r#"{ Number(min: 2, max: 4) { value @tag(name: "v") @output multiple(max: 3) @fold { value @output(name: "m") divisor @fold { value @output(name: "d") @filter(op: "<=", value: ["%v"]) @filter(op: "!=", value: ["%v"]) } } } }"#),
    ];
    for (label, q) in queries { expect_no_panic(label, q, &[], true, &mut failures); n += 1; }
    finish("c09_grid_repeated_tag_in_fold", n, failures);
}

// @grid c09_grid_ordering_on_lists tier=quick bound="ordering filters <, <=, >, >= on the list-typed property vowelsInName with list arguments and list tags"
// @ob an ordering filter whose operands are list-typed is either rejected by the frontend or runs without panicking
pub(crate) fn c09_grid_ordering_on_lists() {
    let mut n = 0u64; let mut failures = BTreeSet::new();
    let l = |v: &[&str]| FieldValue::List(v.iter().map(|s| FieldValue::String(Arc::from(*s))).collect::<Vec<_>>().into());
    for op in ["<", "<=", ">", ">="] {
        for a in [l(&[]), l(&["a"]), l(&["o", "e"]), l(&["u", "zzz"])] {
            let q = format!(r#"{{ Number(min: 0, max: 4) {{ value @output vowelsInName @filter(op: "{op}", value: ["$x"]) }} }}"#);
            expect_no_panic(&format!("vowelsInName {op} $list"), &q, &[("x", a)], false, &mut failures); n += 1;
        }
        let q = format!(r#"{{ Number(min: 0, max: 4) {{ vowelsInName @tag(name: "t") successor {{ value @output vowelsInName @filter(op: "{op}", value: ["%t"]) }} }} }}"#);
        expect_no_panic(&format!("vowelsInName {op} %tag"), &q, &[], false, &mut failures); n += 1;
    }
    finish("c09_grid_ordering_on_lists", n, failures);
}

// @grid c09_grid_invalid_regex tier=quick bound="regex / not_regex filters with valid and invalid pattern strings as variable and as tag"
// @ob a regex filter whose (accepted) argument is not a valid regular expression runs without panicking
pub(crate) fn c09_grid_invalid_regex() {
    let mut n = 0u64; let mut failures = BTreeSet::new();
    for op in ["regex", "not_regex"] { for pat in ["^t.*", "(", "[a-", "*", "\\", "a{2,1}", ""] {
        let q = format!(r#"{{ Number(min: 0, max: 4) {{ name @output @filter(op: "{op}", value: ["$x"]) }} }}"#);
        expect_no_panic(&format!("name {op} $pattern"), &q, &[("x", FieldValue::String(Arc::from(pat)))], true, &mut failures); n += 1;
    } }
    for op in ["regex", "not_regex"] {
        // the tag value (a number's name) is used as the pattern
        let q = format!(r#"{{ Number(min: 0, max: 4) {{ name @tag(name: "t") successor {{ name @output @filter(op: "{op}", value: ["%t"]) }} }} }}"#);
        expect_no_panic(&format!("name {op} %tag"), &q, &[], true, &mut failures); n += 1;
    }
    finish("c09_grid_invalid_regex", n, failures);
}

// @grid c09_grid_fold_count_in_optional tier=quick bound="fold-count filters / outputs / tags on a @fold nested under an @optional edge that is missing for some rows; 8 operators x 4 argument values, variable and tag arguments"
// @ob an accepted query whose count-filtered @fold sits inside an @optional scope runs without panicking, also for the rows whose optional edge does not exist
pub(crate) fn c09_grid_fold_count_in_optional() {
    let mut n = 0u64; let mut failures = BTreeSet::new();
    for op in ["=", "!=", "<", "<=", ">", ">="] { for a in [FieldValue::Int64(-1), FieldValue::Int64(0), FieldValue::Int64(1), FieldValue::Uint64(3)] {
        let q = format!(r#"{{ Number(min: 0, max: 2) {{ value @output predecessor @optional {{ value @output(name: "p") successor @fold @transform(op: "count") @filter(op: "{op}", value: ["$x"]) }} }} }}"#);
        expect_no_panic(&format!("count {op} $x in optional"), &q, &[("x", a.clone())], true, &mut failures); n += 1;
        let q = format!(r#"{{ Number(min: 0, max: 2) {{ value @output predecessor @optional {{ value @output(name: "p") successor @fold @transform(op: "count") @filter(op: "{op}", value: ["$x"]) @output(name: "cnt") {{ value @output(name: "s") }} }} }} }}"#);
        expect_no_panic(&format!("count {op} $x with outputs in optional"), &q, &[("x", a)], true, &mut failures); n += 1;
    } }
    let l = |v: Vec<FieldValue>| FieldValue::List(v.into());
    for op in ["one_of", "not_one_of"] { for a in [l(vec![]), l(vec![FieldValue::Int64(0)]), l(vec![FieldValue::Int64(1), FieldValue::Int64(2)])] {
        let q = format!(r#"{{ Number(min: 0, max: 2) {{ value @output predecessor @optional {{ successor @fold @transform(op: "count") @filter(op: "{op}", value: ["$x"]) }} }} }}"#);
        expect_no_panic(&format!("count {op} $x in optional"), &q, &[("x", a)], true, &mut failures); n += 1;
    } }
    for op in ["=", "!=", "<", "<=", ">", ">="] {
        let q = format!(r#"{{ Number(min: 0, max: 2) {{ value @output @tag(name: "v") predecessor @optional {{ successor @fold @transform(op: "count") @filter(op: "{op}", value: ["%v"]) }} }} }}"#);
        expect_no_panic(&format!("count {op} %tag in optional"), &q, &[], true, &mut failures); n += 1;
    }
    let q = r#"{ Number(min: 0, max: 2) { value @output predecessor @optional { successor @fold @transform(op: "count") @tag(name: "c") @output(name: "cnt") successor { value @filter(op: ">=", value: ["%c"]) } } } }"#;
    expect_no_panic("count tag and output in optional", q, &[], true, &mut failures); n += 1;
    finish("c09_grid_fold_count_in_optional", n, failures);
}

// @grid c09_grid_nested_scopes tier=quick bound="[+ 400 seeded random accepted documents and 1500 seeded random documents of which a third is ill-typed, VERIF_SEED] every nesting of up to 3 scopes from {plain edge, @optional, @fold, @recurse(depth: 2)} along predecessor/successor/multiple edges from numbers 0..3 (the predecessor of 0 is missing), with outputs, a filter and a tag used in the innermost scope; plus the extra corpus shapes"
// @ob every accepted combination of nested @optional / @fold / @recurse scopes runs without panicking, also for rows whose optional edges do not exist
pub(crate) fn c09_grid_nested_scopes() {
    let mut n = 0u64; let mut failures = BTreeSet::new();
    let dirs = ["", "@optional", "@fold", "@recurse(depth: 2)"];
    let edges = ["predecessor", "successor", "multiple(max: 3)"];
    for d1 in dirs { for d2 in dirs { for d3 in dirs { for (i, e1) in edges.iter().enumerate() {
        let (e2, e3) = (edges[(i + 1) % 3], edges[(i + 2) % 3]);
        if d1.contains("recurse") && e1.starts_with("multiple") || d2.contains("recurse") && e2.starts_with("multiple") || d3.contains("recurse") && e3.starts_with("multiple") { continue; }
        let q = format!(r#"{{ Number(min: 0, max: 3) {{ value @output @tag(name: "v") {e1} {d1} {{ value @output(name: "a") {e2} {d2} {{ value @output(name: "b") {e3} {d3} {{ value @output(name: "c") @filter(op: "!=", value: ["%v"]) }} }} }} }} }}"#);
        expect_no_panic(&format!("{e1} {d1} / {e2} {d2} / {e3} {d3}"), &q, &[], false, &mut failures); n += 1;
    } } } }
    for case in crate::verif_corpus::corpus_with_random(400, 9) {
        if case.schema_name != "numbers" || !(case.name.starts_with("x_") || case.name.starts_with("rnd_")) { continue; }
        let args: Vec<(&str, FieldValue)> = case.arguments.iter().map(|(k, v)| (k.as_ref(), v.clone())).collect();
        expect_no_panic(&case.name, &case.query, &args, true, &mut failures); n += 1;
    }
    // seeded random documents of which a third is deliberately ill-typed: whatever the frontend accepts must execute without panicking
    for (i, d) in crate::verif_random::documents(1500, 90, 35).into_iter().enumerate() {
        let args: Vec<(&str, FieldValue)> = d.arguments.iter().map(|(k, v)| (k.as_ref(), v.clone())).collect();
        expect_no_panic(&format!("sloppy_{i} {}", d.query), &d.query, &args, false, &mut failures); n += 1;
    }
    finish("c09_grid_nested_scopes", n, failures);
}
