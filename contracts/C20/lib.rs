// @target trustfall_core/src/lib.rs
// @module verif_c20
// @cfg all(test, verif_replay)
// @fn trustfall_core/src/schema/adapter/mod.rs::SchemaAdapter
//
// result == spec(schema): the spec reads the parsed schema document directly (type definitions and
// their fields as written) following the introspection schema's documentation; the introspection
// adapter is queried through the real engine. Bounded native stand-in over the repository's schemas.
use crate::interpreter::execution::interpret_ir;
use crate::interpreter::helpers::check_adapter_invariants;
use crate::ir::FieldValue;
use crate::schema::{Schema, SchemaAdapter};
use crate::verif_vk as vk;
use async_graphql_parser::types::{BaseType, Type as GType, TypeKind};
use std::collections::{BTreeMap, BTreeSet};
use std::sync::Arc;

fn base_name(t: &GType) -> String { let mut b = &t.base; loop { match b { BaseType::Named(n) => return n.to_string(), BaseType::List(i) => b = &i.base } } }
fn is_list(t: &GType) -> bool { matches!(t.base, BaseType::List(_)) }

fn run(meta: &Schema, target: &Schema, q: &str) -> Vec<BTreeMap<Arc<str>, FieldValue>> { run_with(meta, target, q, BTreeMap::new()) }
fn run_with(meta: &Schema, target: &Schema, q: &str, args: BTreeMap<Arc<str>, FieldValue>) -> Vec<BTreeMap<Arc<str>, FieldValue>> {
    let adapter = Arc::new(SchemaAdapter::new(target));
    let iq = crate::frontend::parse(meta, q).unwrap_or_else(|e| panic!("introspection query does not compile: {e}: {q}"));
    interpret_ir(adapter, iq, Arc::new(args)).expect("arguments accepted").collect()
}
/// JSON text of a default value as written in the schema document (spec side, written independently of the adapter)
fn json_of(v: &async_graphql_value::ConstValue) -> String {
    use async_graphql_value::ConstValue as C;
    match v {
        C::Null => "null".into(), C::Boolean(b) => b.to_string(), C::Number(n) => n.to_string(), C::String(x) => format!("{x:?}"),
        C::List(xs) => format!("[{}]", xs.iter().map(json_of).collect::<Vec<_>>().join(",")),
        other => format!("<unsupported {other}>"),
    }
}
fn param_spec(a: &async_graphql_parser::types::InputValueDefinition) -> String {
    let default = match &a.default_value { Some(v) => json_of(&v.node), None => if a.ty.node.nullable { "null".into() } else { "<null>".into() } };
    format!("{}:{}={}", a.name.node, a.ty.node, default)
}
const EXTRA_SCHEMA: &str = r#"schema { query: RootSchemaQuery }
directive @filter(op: String!, value: [String!]) repeatable on FIELD | INLINE_FRAGMENT
directive @tag(name: String) repeatable on FIELD
directive @output(name: String) repeatable on FIELD
directive @optional on FIELD
directive @recurse(depth: Int!) on FIELD
directive @fold on FIELD
directive @transform(op: String!) repeatable on FIELD
type RootSchemaQuery { Item(limit: Int = 7, name: String = "abc", strict: Boolean = true, ratio: Float = 1.5, ids: [Int] = [1, null], req: Int!, opt: String, optlist: [Int!], optlist2: [[String]]): [Item!]  Special(only: [Boolean!]! = [true, false]): Special! }
interface Item { name: String  size: Int!  tags: [String!]!  related(limit: Int! = 3, prefix: String, x: Int = 7, s: String = "abc", l: [Int] = [1, null], n: Int = null, optlist: [Int!], reqlist: [Int]!): [Item!]  parent(kind: String! = "x", depth: Int!): Item  plain: Item! }
type Plain implements Item { name: String  size: Int!  tags: [String!]!  related(limit: Int! = 3, prefix: String, x: Int = 7, s: String = "abc", l: [Int] = [1, null], n: Int = null, optlist: [Int!], reqlist: [Int]!): [Item!]  parent(kind: String! = "x", depth: Int!): Item  plain: Item! }
type Special implements Item { name: String  size: Int!  tags: [String!]!  related(limit: Int! = 3, prefix: String, x: Int = 7, s: String = "abc", l: [Int] = [1, null], n: Int = null, optlist: [Int!], reqlist: [Int]!): [Item!]  parent(kind: String! = "x", depth: Int!): Special  plain: Item!  extra: Float  flags(only: [Boolean!] = [true], ratio: Float = 2.5, f: Float! = 0.5): [Special!]! }
"#;
fn s(v: &FieldValue) -> String { match v { FieldValue::String(x) => x.to_string(), FieldValue::Null => "<null>".into(), other => format!("{other:?}") } }
fn list(v: &FieldValue) -> Vec<String> { v.as_slice().expect("list output").iter().map(s).collect() }

// @grid c20_grid_introspection_matches_schema tier=quick bound="the repository's 5 base schemas, its valid-schema corpus, the introspection schema itself and a schema with every kind of parameter default; 10 query templates x name filters (=, !=, has_prefix, not_has_substring, one_of, not_one_of) x values incl. the root query type's name"
// @ob the introspection adapter reports exactly the schema's vertex types with their interface flags and implements relations, each type's properties with their types, each type's edges with target, cardinality (to_many = list-typed, at_least_one = non-null) and parameters with type and default, and the entrypoints; and it passes the adapter invariant checker
pub(crate) fn c20_grid_introspection_matches_schema() {
    let mut n = 0u64;
    let mut failures = BTreeSet::new();
    let meta = Schema::parse(SchemaAdapter::schema_text()).expect("meta schema");
    let mut docs: Vec<(String, String)> = vec![("<introspection schema>".into(), SchemaAdapter::schema_text().to_string()), ("<parameters with defaults>".into(), EXTRA_SCHEMA.to_string())];
    for dir in ["test_data/schemas", "test_data/tests/valid_schemas"] {
        let mut names: Vec<String> = std::fs::read_dir(dir).unwrap().filter_map(|e| e.ok()).map(|e| e.file_name().to_string_lossy().to_string()).filter(|n| n.ends_with(".graphql")).collect();
        names.sort();
        for name in names { docs.push((format!("{dir}/{name}"), std::fs::read_to_string(format!("{dir}/{name}")).unwrap())); }
    }
    for (label, text) in docs {
        vk::grid_case(format_args!("{}", label));
        let Ok(schema) = Schema::parse(&text) else { continue; };
        let root = schema.query_type_name().to_string();
        // ---- spec, read off the parsed definitions
        let mut want_types = BTreeSet::new();
        let mut want_props = BTreeSet::new();
        let mut want_edges = BTreeSet::new();
        let mut want_impl = BTreeSet::new();
        for (tname, def) in schema.vertex_types.iter() {
            if tname.as_ref() == root { continue; }
            let (is_interface, fields, implements) = match &def.kind {
                TypeKind::Object(o) => (false, &o.fields, &o.implements),
                TypeKind::Interface(i) => (true, &i.fields, &i.implements),
                _ => continue,
            };
            want_types.insert(format!("{tname} interface={is_interface}"));
            for i in implements { want_impl.insert(format!("{tname} implements {}", i.node)); }
            for f in fields {
                let ty = &f.node.ty.node;
                if schema.vertex_types.contains_key(base_name(ty).as_str()) {
                    let params: Vec<String> = f.node.arguments.iter().map(|a| param_spec(&a.node)).collect();
                    want_edges.insert(format!("{tname}.{} -> {} to_many={} at_least_one={} params={:?}", f.node.name.node, base_name(ty), is_list(ty), !ty.nullable, params));
                } else {
                    want_props.insert(format!("{tname}.{}: {}", f.node.name.node, ty));
                }
            }
        }
        let mut want_entry = BTreeSet::new();
        if let TypeKind::Object(o) = &schema.vertex_types[root.as_str()].kind {
            for f in &o.fields { want_entry.insert(format!("{} -> {} to_many={} at_least_one={} params={:?}", f.node.name.node, base_name(&f.node.ty.node), is_list(&f.node.ty.node), !f.node.ty.node.nullable, f.node.arguments.iter().map(|a| param_spec(&a.node)).collect::<Vec<_>>())); }
        }
        // ---- what introspection reports
        let rows = run(&meta, &schema, r#"{ VertexType { name @output is_interface @output
            implements @fold { name @output(name: "impl") }
            property @fold { name @output(name: "pname") type @output(name: "ptype") }
            edge @fold { name @output(name: "ename") to_many @output at_least_one @output target { name @output(name: "etarget") } parameter @fold { name @output(name: "prm") type @output(name: "prmtype") default @output(name: "prmdefault") } } } }"#);
        let (mut got_types, mut got_props, mut got_edges, mut got_impl) = (BTreeSet::new(), BTreeSet::new(), BTreeSet::new(), BTreeSet::new());
        for r in &rows {
            let g = |k: &str| r[&Arc::from(k) as &Arc<str>].clone();
            let tname = s(&g("name"));
            got_types.insert(format!("{tname} interface={}", g("is_interface") == FieldValue::Boolean(true)));
            for i in list(&g("impl")) { got_impl.insert(format!("{tname} implements {i}")); }
            for (p, t) in list(&g("pname")).into_iter().zip(list(&g("ptype"))) { got_props.insert(format!("{tname}.{p}: {t}")); }
            let (en, tm, alo, et) = (list(&g("ename")), g("to_many"), g("at_least_one"), list(&g("etarget")));
            let prm = g("prm"); let prmtype = g("prmtype"); let prmdefault = g("prmdefault");
            for (i, e) in en.iter().enumerate() {
                let params: Vec<String> = list(&prm.as_slice().unwrap()[i]).into_iter().zip(list(&prmtype.as_slice().unwrap()[i])).zip(list(&prmdefault.as_slice().unwrap()[i])).map(|((a, b), c)| format!("{a}:{b}={c}")).collect();
                got_edges.insert(format!("{tname}.{e} -> {} to_many={} at_least_one={} params={:?}", et[i], tm.as_slice().unwrap()[i] == FieldValue::Boolean(true), alo.as_slice().unwrap()[i] == FieldValue::Boolean(true), params));
            }
        }
        let erows = run(&meta, &schema, r#"{ Entrypoint { name @output to_many @output at_least_one @output target { name @output(name: "t") } parameter @fold { name @output(name: "prm") type @output(name: "prmtype") default @output(name: "prmdefault") } } }"#);
        let got_entry: BTreeSet<String> = erows.iter().map(|r| {
            let g = |k: &str| r[&Arc::from(k) as &Arc<str>].clone();
            let params: Vec<String> = list(&g("prm")).into_iter().zip(list(&g("prmtype"))).zip(list(&g("prmdefault"))).map(|((a, b), c)| format!("{a}:{b}={c}")).collect();
            format!("{} -> {} to_many={} at_least_one={} params={:?}", s(&g("name")), s(&g("t")), g("to_many") == FieldValue::Boolean(true), g("at_least_one") == FieldValue::Boolean(true), params)
        }).collect();
        // the same entrypoints through the Schema vertex
        let srows = run(&meta, &schema, r#"{ Schema { entrypoint { name @output } } }"#);
        let via_schema: BTreeSet<String> = srows.iter().map(|r| s(&r[&Arc::from("name") as &Arc<str>])).collect();
        let direct: BTreeSet<String> = erows.iter().map(|r| s(&r[&Arc::from("name") as &Arc<str>])).collect();
        if via_schema != direct { failures.insert(format!("{label}: Schema.entrypoint and Entrypoint disagree")); }
        let vrows = run(&meta, &schema, r#"{ Schema { vertex_type { name @output } } }"#);
        let via_schema: BTreeSet<String> = vrows.iter().map(|r| s(&r[&Arc::from("name") as &Arc<str>])).collect();
        let direct: BTreeSet<String> = rows.iter().map(|r| s(&r[&Arc::from("name") as &Arc<str>])).collect();
        if via_schema != direct { failures.insert(format!("{label}: Schema.vertex_type and VertexType disagree")); }
        // __typename of every kind of introspection vertex
        let trows = run(&meta, &schema, r#"{ Schema { __typename @output(name: "s") vertex_type { __typename @output(name: "v") property @fold { __typename @output(name: "p") } edge @fold { __typename @output(name: "e") target { __typename @output(name: "t") } parameter @fold { __typename @output(name: "prm") } } implements @fold { __typename @output(name: "i") } } } }"#);
        let erows2 = run(&meta, &schema, r#"{ Entrypoint { __typename @output(name: "e") parameter @fold { __typename @output(name: "prm") } target { __typename @output(name: "t") } } }"#);
        fn flat(v: &FieldValue, out: &mut BTreeSet<String>) { match v { FieldValue::List(xs) => for x in xs.iter() { flat(x, out) }, other => { out.insert(s(other)); } } }
        let mut seen: BTreeMap<&str, BTreeSet<String>> = BTreeMap::new();
        for r in trows.iter().chain(erows2.iter()) { for (k, v) in r.iter() { let key = match k.as_ref() { "s" => "Schema", "v" | "t" | "i" => "VertexType", "p" => "Property", "e" => "Edge", "prm" => "EdgeParameter", _ => continue }; flat(v, seen.entry(key).or_default()); } }
        for (want, got) in &seen { if !(got.is_empty() || (got.len() == 1 && got.contains(*want))) { failures.insert(format!("{label}: __typename of {want} vertices reported as {got:?}")); } }
        // filters on names must only select among what the unfiltered query reports, whatever hints the adapter takes from them
        let templates = [
            r#"{ VertexType { name @output FILTER } }"#, r#"{ Schema { vertex_type { name @output FILTER } } }"#,
            r#"{ Entrypoint { name @output FILTER } }"#, r#"{ Schema { entrypoint { name @output FILTER } } }"#,
            r#"{ VertexType { name @output(name: "t") edge { name @output FILTER } } }"#, r#"{ VertexType { name @output(name: "t") property { name @output FILTER } } }"#,
            r#"{ VertexType { name @output(name: "t") implements { name @output FILTER } } }"#, r#"{ VertexType { name @output(name: "t") implementer { name @output FILTER } } }"#,
            r#"{ VertexType { name @output(name: "t") edge { name @output(name: "e") target { name @output FILTER } } } }"#,
            r#"{ VertexType { name @output FILTER edge @fold { name @output(name: "e") } } }"#,
        ];
        for template in templates {
            let baseline = run(&meta, &schema, &template.replace("FILTER", ""));
            let mut values: Vec<String> = baseline.iter().map(|r| s(&r[&Arc::from("name") as &Arc<str>])).collect::<BTreeSet<_>>().into_iter().take(6).collect();
            values.push(root.clone()); values.push("Nope".into());
            for v in &values {
                let one = FieldValue::String(Arc::from(v.as_str()));
                let lists = [vec![v.clone()], vec![v.clone(), root.clone()], vec![root.clone(), "Nope".into()], vec![], vec![values[0].clone(), v.clone(), root.clone()]];
                let mut cases: Vec<(&str, FieldValue, Box<dyn Fn(&str) -> bool>)> = Vec::new();
                let vv = v.clone(); cases.push(("=", one.clone(), Box::new(move |x| x == vv)));
                let vv = v.clone(); cases.push(("!=", one.clone(), Box::new(move |x| x != vv)));
                let vv = v.clone(); cases.push(("has_prefix", one.clone(), Box::new(move |x| x.starts_with(vv.as_str()))));
                let vv = v.clone(); cases.push(("not_has_substring", one.clone(), Box::new(move |x| !x.contains(vv.as_str()))));
                for l in lists.iter() {
                    let fv = FieldValue::List(l.iter().map(|x| FieldValue::String(Arc::from(x.as_str()))).collect::<Vec<_>>().into());
                    let ll = l.clone(); cases.push(("one_of", fv.clone(), Box::new(move |x| ll.iter().any(|y| y == x))));
                    let ll = l.clone(); cases.push(("not_one_of", fv, Box::new(move |x| !ll.iter().any(|y| y == x))));
                }
                for (op, arg, keep) in cases {
                    let q = template.replace("FILTER", &format!(r#"@filter(op: "{op}", value: ["$x"])"#));
                    let mut args = BTreeMap::new(); args.insert(Arc::from("x"), arg.clone());
                    let got = run_with(&meta, &schema, &q, args);
                    let want: Vec<_> = baseline.iter().filter(|r| keep(&s(&r[&Arc::from("name") as &Arc<str>]))).cloned().collect();
                    // as multisets: the order in which vertex types are reported is not part of the statement
                    let key = |rows: &[BTreeMap<Arc<str>, FieldValue>]| { let mut k: Vec<String> = rows.iter().map(|r| format!("{r:?}")).collect(); k.sort(); k };
                    if key(&got) != key(&want) { failures.insert(format!("{label}: filter {op} {arg:?} changes what is reported: {template}")); }
                    n += 1;
                }
            }
        }
        for (what, want, got) in [("vertex types", &want_types, &got_types), ("implements relations", &want_impl, &got_impl), ("properties", &want_props, &got_props), ("edges", &want_edges, &got_edges), ("entrypoints", &want_entry, &got_entry)] {
            if want != got {
                let missing: Vec<&String> = want.difference(got).take(3).collect();
                let extra: Vec<&String> = got.difference(want).take(3).collect();
                failures.insert(format!("{label}: {what} differ (missing {missing:?}, unexpected {extra:?})"));
            }
        }
        n += 1;
    }
    // the introspection adapter honours the adapter contract (checked by the repository's own invariant checker)
    let numbers = Schema::parse(std::fs::read_to_string("test_data/schemas/numbers.graphql").unwrap()).unwrap();
    if std::panic::catch_unwind(std::panic::AssertUnwindSafe(|| check_adapter_invariants(&meta, SchemaAdapter::new(&numbers)))).is_err() {
        failures.insert("the introspection adapter fails the adapter invariant checker".to_string());
    }
    vk::grid_done("c20_grid_introspection_matches_schema", n);
    if !failures.is_empty() { panic!("introspection differs from the schema: {{{}}}", failures.into_iter().take(8).collect::<Vec<_>>().join("; ")); }
}
