// @target trustfall_core/src/lib.rs
// @module verif_c20
// @cfg all(test, verif_replay)
// @fn trustfall_core/src/schema/adapter/mod.rs::SchemaAdapter
//
// result == spec(schema): the spec reads the parsed schema document directly (type definitions and
// their fields as written) following the introspection schema's documentation; the introspection
// adapter is queried through the real engine. Bounded native stand-in over the repository's schemas.
use crate::interpreter::execution::interpret_ir;
use crate::interpreter::helpers::check_adapter_invariants;
use crate::ir::FieldValue;
use crate::schema::{Schema, SchemaAdapter};
use crate::verif_vk as vk;
use async_graphql_parser::types::{BaseType, Type as GType, TypeKind};
use std::collections::{BTreeMap, BTreeSet};
use std::sync::Arc;

fn base_name(t: &GType) -> String { let mut b = &t.base; loop { match b { BaseType::Named(n) => return n.to_string(), BaseType::List(i) => b = &i.base } } }
fn is_list(t: &GType) -> bool { matches!(t.base, BaseType::List(_)) }

fn run(meta: &Schema, target: &Schema, q: &str) -> Vec<BTreeMap<Arc<str>, FieldValue>> {
    let adapter = Arc::new(SchemaAdapter::new(target));
    let iq = crate::frontend::parse(meta, q).expect("introspection query compiles");
    interpret_ir(adapter, iq, Arc::new(BTreeMap::new())).expect("no arguments").collect()
}
fn s(v: &FieldValue) -> String { match v { FieldValue::String(x) => x.to_string(), FieldValue::Null => "<null>".into(), other => format!("{other:?}") } }
fn list(v: &FieldValue) -> Vec<String> { v.as_slice().expect("list output").iter().map(s).collect() }

// @grid c20_grid_introspection_matches_schema tier=quick bound="the repository's 5 base schemas, its valid-schema corpus and the introspection schema itself"
// @ob the introspection adapter reports exactly the schema's vertex types with their interface flags and implements relations, each type's properties with their types, each type's edges with target, cardinality (to_many = list-typed, at_least_one = non-null) and parameters with type and default, and the entrypoints; and it passes the adapter invariant checker
pub(crate) fn c20_grid_introspection_matches_schema() {
    let mut n = 0u64;
    let mut failures = BTreeSet::new();
    let meta = Schema::parse(SchemaAdapter::schema_text()).expect("meta schema");
    let mut docs: Vec<(String, String)> = vec![("<introspection schema>".into(), SchemaAdapter::schema_text().to_string())];
    for dir in ["test_data/schemas", "test_data/tests/valid_schemas"] {
        let mut names: Vec<String> = std::fs::read_dir(dir).unwrap().filter_map(|e| e.ok()).map(|e| e.file_name().to_string_lossy().to_string()).filter(|n| n.ends_with(".graphql")).collect();
        names.sort();
        for name in names { docs.push((format!("{dir}/{name}"), std::fs::read_to_string(format!("{dir}/{name}")).unwrap())); }
    }
    for (label, text) in docs {
        vk::grid_case(format_args!("{}", label));
        let Ok(schema) = Schema::parse(&text) else { continue; };
        let root = schema.query_type_name().to_string();
        // ---- spec, read off the parsed definitions
        let mut want_types = BTreeSet::new();
        let mut want_props = BTreeSet::new();
        let mut want_edges = BTreeSet::new();
        let mut want_impl = BTreeSet::new();
        for (tname, def) in schema.vertex_types.iter() {
            if tname.as_ref() == root { continue; }
            let (is_interface, fields, implements) = match &def.kind {
                TypeKind::Object(o) => (false, &o.fields, &o.implements),
                TypeKind::Interface(i) => (true, &i.fields, &i.implements),
                _ => continue,
            };
            want_types.insert(format!("{tname} interface={is_interface}"));
            for i in implements { want_impl.insert(format!("{tname} implements {}", i.node)); }
            for f in fields {
                let ty = &f.node.ty.node;
                if schema.vertex_types.contains_key(base_name(ty).as_str()) {
                    let params: Vec<String> = f.node.arguments.iter().map(|a| format!("{}:{}", a.node.name.node, a.node.ty.node)).collect();
                    want_edges.insert(format!("{tname}.{} -> {} to_many={} at_least_one={} params={:?}", f.node.name.node, base_name(ty), is_list(ty), !ty.nullable, params));
                } else {
                    want_props.insert(format!("{tname}.{}: {}", f.node.name.node, ty));
                }
            }
        }
        let mut want_entry = BTreeSet::new();
        if let TypeKind::Object(o) = &schema.vertex_types[root.as_str()].kind {
            for f in &o.fields { want_entry.insert(format!("{} -> {} to_many={}", f.node.name.node, base_name(&f.node.ty.node), is_list(&f.node.ty.node))); }
        }
        // ---- what introspection reports
        let rows = run(&meta, &schema, r#"{ VertexType { name @output is_interface @output
            implements @fold { name @output(name: "impl") }
            property @fold { name @output(name: "pname") type @output(name: "ptype") }
            edge @fold { name @output(name: "ename") to_many @output at_least_one @output target { name @output(name: "etarget") } parameter @fold { name @output(name: "prm") type @output(name: "prmtype") } } } }"#);
        let (mut got_types, mut got_props, mut got_edges, mut got_impl) = (BTreeSet::new(), BTreeSet::new(), BTreeSet::new(), BTreeSet::new());
        for r in &rows {
            let g = |k: &str| r[&Arc::from(k) as &Arc<str>].clone();
            let tname = s(&g("name"));
            got_types.insert(format!("{tname} interface={}", g("is_interface") == FieldValue::Boolean(true)));
            for i in list(&g("impl")) { got_impl.insert(format!("{tname} implements {i}")); }
            for (p, t) in list(&g("pname")).into_iter().zip(list(&g("ptype"))) { got_props.insert(format!("{tname}.{p}: {t}")); }
            let (en, tm, alo, et) = (list(&g("ename")), g("to_many"), g("at_least_one"), list(&g("etarget")));
            let prm = g("prm"); let prmtype = g("prmtype");
            for (i, e) in en.iter().enumerate() {
                let params: Vec<String> = list(&prm.as_slice().unwrap()[i]).into_iter().zip(list(&prmtype.as_slice().unwrap()[i])).map(|(a, b)| format!("{a}:{b}")).collect();
                got_edges.insert(format!("{tname}.{e} -> {} to_many={} at_least_one={} params={:?}", et[i], tm.as_slice().unwrap()[i] == FieldValue::Boolean(true), alo.as_slice().unwrap()[i] == FieldValue::Boolean(true), params));
            }
        }
        let erows = run(&meta, &schema, r#"{ Entrypoint { name @output to_many @output target { name @output(name: "t") } } }"#);
        let got_entry: BTreeSet<String> = erows.iter().map(|r| format!("{} -> {} to_many={}", s(&r[&Arc::from("name") as &Arc<str>]), s(&r[&Arc::from("t") as &Arc<str>]), r[&Arc::from("to_many") as &Arc<str>] == FieldValue::Boolean(true))).collect();
        for (what, want, got) in [("vertex types", &want_types, &got_types), ("implements relations", &want_impl, &got_impl), ("properties", &want_props, &got_props), ("edges", &want_edges, &got_edges), ("entrypoints", &want_entry, &got_entry)] {
            if want != got {
                let missing: Vec<&String> = want.difference(got).take(3).collect();
                let extra: Vec<&String> = got.difference(want).take(3).collect();
                failures.insert(format!("{label}: {what} differ (missing {missing:?}, unexpected {extra:?})"));
            }
        }
        n += 1;
    }
    // the introspection adapter honours the adapter contract (checked by the repository's own invariant checker)
    let numbers = Schema::parse(std::fs::read_to_string("test_data/schemas/numbers.graphql").unwrap()).unwrap();
    if std::panic::catch_unwind(std::panic::AssertUnwindSafe(|| check_adapter_invariants(&meta, SchemaAdapter::new(&numbers)))).is_err() {
        failures.insert("the introspection adapter fails the adapter invariant checker".to_string());
    }
    vk::grid_done("c20_grid_introspection_matches_schema", n);
    if !failures.is_empty() { panic!("introspection differs from the schema: {{{}}}", failures.into_iter().take(8).collect::<Vec<_>>().join("; ")); }
}
