// @target trustfall_core/src/lib.rs
// @module verif_c03
// @cfg all(test, verif_replay)
// @fn trustfall_core/src/interpreter/execution.rs::interpret_ir
//
// Laziness as a contract on the result iterator, evaluated natively: a counting adapter (which does not
// read ahead) wraps the starting-vertex iterator; after interpret_ir returns nothing has been pulled,
// and after the k-th row (which names its starting vertex through the `root` output) at most the starting
// vertices up to that one have been pulled. Bounded stand-in over the enumerated query family.
use crate::interpreter::execution::interpret_ir;
use crate::interpreter::{Adapter, AsVertex, ContextIterator, ContextOutcomeIterator, ResolveEdgeInfo, ResolveInfo, VertexIterator};
use crate::ir::{EdgeParameters, FieldValue};
use crate::numbers_interpreter::{NumbersAdapter, NumbersVertex};
use crate::verif_corpus::corpus;
use crate::verif_family::{family_args, family_depth1_and_pairs, query_text};
use crate::verif_vk as vk;
use std::cell::Cell;
use std::collections::{BTreeMap, BTreeSet};
use std::rc::Rc;
use std::sync::Arc;

struct Counting { inner: NumbersAdapter, pulled: Rc<Cell<i64>>, other_calls: Rc<Cell<u64>>, only: Option<usize> }
impl<'a> Adapter<'a> for Counting {
    type Vertex = NumbersVertex;
    fn resolve_starting_vertices(&self, edge_name: &Arc<str>, parameters: &EdgeParameters, resolve_info: &ResolveInfo) -> VertexIterator<'a, Self::Vertex> {
        let pulled = self.pulled.clone();
        let all = self.inner.resolve_starting_vertices(edge_name, parameters, resolve_info);
        // `only`: the dataset restricted to its i-th starting vertex (used to attribute rows to starting vertices)
        match self.only { Some(i) => Box::new(all.skip(i).take(1)), None => Box::new(all.inspect(move |_| pulled.set(pulled.get() + 1))) }
    }
    fn resolve_property<V: AsVertex<Self::Vertex> + 'a>(&self, contexts: ContextIterator<'a, V>, type_name: &Arc<str>, property_name: &Arc<str>, resolve_info: &ResolveInfo) -> ContextOutcomeIterator<'a, V, FieldValue> {
        self.inner.resolve_property(contexts, type_name, property_name, resolve_info)
    }
    fn resolve_neighbors<V: AsVertex<Self::Vertex> + 'a>(&self, contexts: ContextIterator<'a, V>, type_name: &Arc<str>, edge_name: &Arc<str>, parameters: &EdgeParameters, resolve_info: &ResolveEdgeInfo) -> ContextOutcomeIterator<'a, V, VertexIterator<'a, Self::Vertex>> {
        self.inner.resolve_neighbors(contexts, type_name, edge_name, parameters, resolve_info)
    }
    fn resolve_coercion<V: AsVertex<Self::Vertex> + 'a>(&self, contexts: ContextIterator<'a, V>, type_name: &Arc<str>, coerce_to_type: &Arc<str>, resolve_info: &ResolveInfo) -> ContextOutcomeIterator<'a, V, bool> {
        self.inner.resolve_coercion(contexts, type_name, coerce_to_type, resolve_info)
    }
}

// @grid c03_grid_lazy_starting_vertices tier=quick bound="[+ seeded random accepted documents, VERIF_SEED] 921 family queries (single edges and sibling pairs x scopes x filters) over starting vertices 0..6; every prefix of the result stream"
// @ob nothing is pulled before the first row is requested, and when the k-th row is produced only the starting vertices up to the one that contributes it have been pulled (so dropping the iterator early causes no further access)
pub(crate) fn c03_grid_lazy_starting_vertices() {
    let mut n = 0u64;
    let mut failures = BTreeSet::new();
    let schema = NumbersAdapter::new();
    for t in family_depth1_and_pairs() {
        let q = query_text(&t, 0, 6);
        vk::grid_case(format_args!("{}", q));
        let args: BTreeMap<Arc<str>, FieldValue> = family_args(&q).into_iter().map(|(k, v)| (Arc::from(k), v)).collect();
        let Ok(iq) = crate::frontend::parse(schema.schema(), &q) else { continue; };
        let pulled = Rc::new(Cell::new(0i64));
        let adapter = Arc::new(Counting { inner: NumbersAdapter::new(), pulled: pulled.clone(), other_calls: Rc::new(Cell::new(0)), only: None });
        let mut rows = interpret_ir(adapter, iq, Arc::new(args)).expect("accepted");
        if pulled.get() != 0 { failures.insert(format!("starting vertices pulled before the first row was requested: {q}")); }
        while let Some(row) = rows.next() {
            let FieldValue::Int64(root) = row[&Arc::from("root") as &Arc<str>] else { unreachable!() };
            // starting vertices are 0..=6 in order: producing a row of `root` needs vertices 0..=root
            if pulled.get() > root + 1 { failures.insert(format!("row of starting vertex {root} produced after pulling {} starting vertices: {q}", pulled.get())); break; }
        }
        n += 1;
    }
    vk::grid_done("c03_grid_lazy_starting_vertices", n);
    if !failures.is_empty() { panic!("evaluation is not lazy: {{{}}}", failures.into_iter().take(6).collect::<Vec<_>>().join("; ")); }
}


// @grid c03_grid_lazy_starting_vertices_corpus tier=quick bound="[+ seeded random accepted documents, VERIF_SEED] every numbers query of the corpus (repository valid queries + extra shapes) with at most 40 starting vertices and 2000 rows; every prefix of the result stream; rows are attributed to starting vertices by re-running the query on the dataset restricted to one starting vertex at a time"
// @ob nothing is pulled before the first row is requested, and when the k-th row is produced only the starting vertices up to the one that contributes it have been pulled
pub(crate) fn c03_grid_lazy_starting_vertices_corpus() {
    let mut n = 0u64;
    let mut failures = BTreeSet::new();
    for case in crate::verif_corpus::corpus_with_random(150, 3) {
        if case.schema_name != "numbers" { continue; }
        let Ok(iq) = crate::frontend::parse(NumbersAdapter::new().schema(), &case.query) else { continue; };
        let args = Arc::new(case.arguments.clone());
        let run = |only: Option<usize>, pulled: Rc<Cell<i64>>| interpret_ir(Arc::new(Counting { inner: NumbersAdapter::new(), pulled, other_calls: Rc::new(Cell::new(0)), only }), iq.clone(), args.clone());
        // total number of starting vertices and of rows
        let total = Rc::new(Cell::new(0i64));
        let Ok(all) = run(None, total.clone()) else { continue; };
        let all_rows = all.take(2001).count();
        if all_rows > 2000 || total.get() > 40 { continue; }
        vk::grid_case(format_args!("{}", case.name));
        // rows contributed by each starting vertex, in order
        let mut owner: Vec<i64> = Vec::new();
        for i in 0..total.get() as usize {
            let c = run(Some(i), Rc::new(Cell::new(0))).expect("accepted").count();
            owner.extend(std::iter::repeat(i as i64).take(c));
        }
        if owner.len() != all_rows { failures.insert(format!("rows are not the concatenation of the rows of each starting vertex ({} vs {all_rows}): {}", owner.len(), case.name)); continue; }
        let pulled = Rc::new(Cell::new(0i64));
        let mut rows = run(None, pulled.clone()).expect("accepted");
        if pulled.get() != 0 { failures.insert(format!("starting vertices pulled before the first row was requested: {}", case.name)); }
        let mut k = 0usize;
        while let Some(_) = rows.next() {
            if pulled.get() > owner[k] + 1 { failures.insert(format!("row {k} comes from starting vertex #{} but {} starting vertices had been pulled: {}", owner[k], pulled.get(), case.name)); break; }
            k += 1;
        }
        n += 1;
    }
    vk::grid_done("c03_grid_lazy_starting_vertices_corpus", n);
    if !failures.is_empty() { panic!("evaluation is not lazy: {{{}}}", failures.into_iter().take(6).collect::<Vec<_>>().join("; ")); }
}
