// @target trustfall_core/src/interpreter/hints/mod.rs
// @module verif_c04
// @fn trustfall_core/src/interpreter/hints/filters.rs::candidate_from_statically_evaluated_filters
// @fn trustfall_core/src/interpreter/hints/filters.rs::fold_requires_at_least_one_element
// @fn EdgeInfo::is_mandatory
// @fn check_locally_non_binding_filters_for_edge
// @fn NeighborInfo::make_non_folded_edge_info
// @fn NeighborInfo::make_folded_edge_info
// @fn ResolveInfo::make_non_folded_edge_info
// @fn ResolveInfo::make_folded_edge_info
// @fn ResolveEdgeInfo::edge
//
// Contract-mode postconditions on the two pure helpers (from the statement: an edge reported as
// mandatory is neither @optional, nor @recurse, nor a fold that may be empty):
// @contract pub fn is_mandatory(&self) -> bool {
// | #[cfg_attr(kani, kani::ensures(|r: &bool| !*r || (!self.optional && self.recursive.is_none() && self.folded != FoldState::FoldedOptional)))]
// @contract fn check_locally_non_binding_filters_for_edge(edge: &IREdge) -> bool {
// | #[cfg_attr(kani, kani::ensures(|r: &bool| *r == matches!(&edge.recursive, Some(rec) if rec.depth.get() >= 2)))]
use super::*;
use super::vertex_info::InternalVertexInfo;
use crate::interpreter::filtering::{equals, greater_than, greater_than_or_equal, less_than, less_than_or_equal, one_of};
use crate::ir::{Argument, FoldSpecificFieldKind, IRQuery, IndexedQuery, Operation, Type, VariableRef};
use crate::verif_vk as vk;
use std::collections::BTreeSet;
use std::num::NonZeroUsize;

fn nz(n: usize) -> NonZeroUsize { NonZeroUsize::new(n).unwrap() }
fn tiny_query(args: BTreeMap<Arc<str>, FieldValue>) -> InterpretedQuery {
    let comp = Arc::new(IRQueryComponent { root: Vid::new(nz(1)), vertices: BTreeMap::new(), edges: BTreeMap::new(), folds: BTreeMap::new(), outputs: BTreeMap::new() });
    let iq = IndexedQuery {
        ir_query: IRQuery { root_name: Arc::from("R"), root_parameters: EdgeParameters::default(), root_component: comp, variables: BTreeMap::new() },
        vids: BTreeMap::new(), eids: BTreeMap::new(), outputs: BTreeMap::new(),
    };
    InterpretedQuery { indexed_query: Arc::new(iq), arguments: Arc::new(args) }
}
fn mk_edge(eid: usize, optional: bool, depth: usize) -> IREdge {
    IREdge { eid: Eid::new(nz(eid)), from_vid: Vid::new(nz(eid)), to_vid: Vid::new(nz(eid + 1)), edge_name: Arc::from("e"), parameters: EdgeParameters::default(), optional,
             recursive: if depth == 0 { None } else { Some(Recursive::new(nz(depth), None)) } }
}

// @harness c04_contract_is_mandatory tier=quick kind=complete timeout=900
// @ob EdgeInfo::is_mandatory() == true  =>  the edge is not @optional, not @recurse and not a fold that may be empty  [kani::ensures on the real fn, proof_for_contract; all flag/depth combinations]
#[kani::proof_for_contract(EdgeInfo::is_mandatory)]
#[kani::unwind(2)]
pub(crate) fn c04_contract_is_mandatory() {
    let q = tiny_query(BTreeMap::new());
    let depth = vk::any_u8() as usize;
    let folded = match vk::any_u8() % 3 { 0 => FoldState::None, 1 => FoldState::FoldedOptional, _ => FoldState::FoldedMandatory };
    let dest = NeighborInfo { query: q, execution_frontier: Bound::Unbounded, starting_vertex: Vid::new(nz(1)), neighbor_vertex: Vid::new(nz(2)), neighbor_path: Vec::new(),
                              within_optional_scope: vk::any_bool(), locally_non_binding_filters: vk::any_bool() };
    let e = EdgeInfo { eid: Eid::new(nz(1)), parameters: EdgeParameters::default(), optional: vk::any_bool(),
                       recursive: if depth == 0 { None } else { Some(Recursive::new(nz(depth), None)) }, folded, destination: dest };
    let m = e.is_mandatory();
    verif_cover!(m, "mandatory reachable");
    assert!(!m || (!e.optional && e.recursive.is_none() && e.folded != FoldState::FoldedOptional), "mandatory => not optional, not recursive, not an optional fold");
    core::mem::forget(e);
}

// @harness c04_contract_locally_non_binding tier=quick kind=complete timeout=900
// @ob check_locally_non_binding_filters_for_edge(e) == (e is @recurse with depth >= 2), all depths  [kani::ensures on the real fn, proof_for_contract]
#[kani::proof_for_contract(check_locally_non_binding_filters_for_edge)]
#[kani::unwind(2)]
pub(crate) fn c04_contract_locally_non_binding() {
    let depth = vk::any_usize();
    let e = mk_edge(1, vk::any_bool(), depth);
    let r = check_locally_non_binding_filters_for_edge(&e);
    assert!(r == (depth >= 2), "locally non-binding iff recursion depth >= 2");
    core::mem::forget(e);
}

// @harness c04_negative_control tier=quick kind=complete expect=fail
// @ob (control) claims recursive edges are never locally non-binding: must FAIL
#[kani::proof]
#[kani::unwind(2)]
pub(crate) fn c04_negative_control() {
    let e = mk_edge(1, false, vk::any_usize());
    assert!(!check_locally_non_binding_filters_for_edge(&e), "control: depth >= 2 is binding (false)");
    core::mem::forget(e);
}

// ---- static candidates: bounded native stand-in ---------------------------------------------------
fn mem(c: &CandidateValue<FieldValue>, v: &FieldValue) -> bool {
    match c {
        CandidateValue::Impossible => false,
        CandidateValue::Single(s) => s == v,
        CandidateValue::Multiple(m) => m.iter().any(|x| x == v),
        CandidateValue::Range(r) => r.contains(v),
        CandidateValue::All => true,
    }
}
const SOPS: [&str; 10] = ["is_null", "is_not_null", "=", "!=", "<", "<=", ">", ">=", "one_of", "not_one_of"];
fn var(name: &str) -> Argument {
    Argument::Variable(VariableRef { variable_name: Arc::from(name), variable_type: Type::parse("Int").unwrap() })
}
fn mk_static_filter<L: Clone + std::fmt::Debug + PartialEq + Eq>(left: L, op: &str, name: &str) -> Operation<L, Argument> {
    match op {
        "is_null" => Operation::IsNull(left), "is_not_null" => Operation::IsNotNull(left),
        "=" => Operation::Equals(left, var(name)), "!=" => Operation::NotEquals(left, var(name)),
        "<" => Operation::LessThan(left, var(name)), "<=" => Operation::LessThanOrEqual(left, var(name)),
        ">" => Operation::GreaterThan(left, var(name)), ">=" => Operation::GreaterThanOrEqual(left, var(name)),
        "one_of" => Operation::OneOf(left, var(name)), _ => Operation::NotOneOf(left, var(name)),
    }
}
fn passes(v: &FieldValue, op: &str, a: &FieldValue) -> bool {
    match op {
        "is_null" => matches!(v, FieldValue::Null), "is_not_null" => !matches!(v, FieldValue::Null),
        "=" => equals(v, a), "!=" => !equals(v, a), "<" => less_than(v, a), "<=" => less_than_or_equal(v, a),
        ">" => greater_than(v, a), ">=" => greater_than_or_equal(v, a), "one_of" => one_of(v, a), _ => !one_of(v, a),
    }
}
fn small_ints() -> Vec<FieldValue> {
    vec![FieldValue::Int64(i64::MIN), FieldValue::Int64(-1), FieldValue::Int64(0), FieldValue::Uint64(0), FieldValue::Int64(1), FieldValue::Uint64(2),
         FieldValue::Int64(i64::MAX), FieldValue::Uint64(i64::MAX as u64), FieldValue::Uint64(i64::MAX as u64 + 1), FieldValue::Uint64(u64::MAX)]
}
/// argument values valid for the variable type the frontend infers for `op` on an Int field (nullable or not)
fn args_for(op: &str, nullable: bool) -> Vec<FieldValue> {
    let l = |v: Vec<FieldValue>| FieldValue::List(v.into());
    match op {
        "is_null" | "is_not_null" => vec![FieldValue::Null],
        "=" | "!=" => { let mut v = small_ints(); if nullable { v.push(FieldValue::Null); } v }
        "one_of" | "not_one_of" => {
            let mut v = vec![l(vec![]), l(vec![FieldValue::Int64(0)]), l(vec![FieldValue::Int64(-1), FieldValue::Uint64(u64::MAX)]), l(vec![FieldValue::Uint64(1), FieldValue::Int64(1), FieldValue::Uint64(2)]),
                             l(vec![FieldValue::Int64(0), FieldValue::Int64(1)]), l(vec![FieldValue::Uint64(3), FieldValue::Uint64(0)])];
            if nullable { v.push(l(vec![FieldValue::Null])); v.push(l(vec![FieldValue::Null, FieldValue::Int64(1)])); }
            v
        }
        _ => small_ints(),
    }
}

// @grid c04_grid_static_candidates tier=quick bound="1 or 2 filters from {is_null, is_not_null, =, !=, <, <=, >, >=, one_of, not_one_of} on an Int field (nullable or not); arguments: 10 boundary integers in both representations, null where the inferred type allows it, 4-6 lists; probes: the integers and null"
// @ob candidate_from_statically_evaluated_filters: every field value admitted by the field's nullability that satisfies all the filters (engine's own operators) is contained in the reported candidate (None = no hint is always sound)
pub(crate) fn c04_grid_static_candidates() {
    let mut n = 0u64;
    let mut failures = BTreeSet::new();
    for nullable in [false, true] { for nf in 1..=2usize { for op1 in SOPS { for op2 in SOPS {
        if nf == 1 && op2 != "=" { continue; }
        if !nullable && (op1.starts_with("is_") || (nf == 2 && op2.starts_with("is_"))) { continue; } // rejected by the frontend
        for a1 in args_for(op1, nullable) { for a2 in (if nf == 2 { args_for(op2, nullable) } else { vec![FieldValue::Null] }) {
            vk::grid_case(format_args!("nullable={} op1={} arg1={:?} filters={} op2={} arg2={:?}", nullable, op1, a1, nf, op2, a2));
            let mut vars = BTreeMap::new();
            vars.insert(Arc::from("x"), a1.clone());
            vars.insert(Arc::from("y"), a2.clone());
            let mut filters = vec![mk_static_filter((), op1, "x")];
            if nf == 2 { filters.push(mk_static_filter((), op2, "y")); }
            let cand = filters::candidate_from_statically_evaluated_filters(filters.iter(), &vars, nullable).map(|c| c.into_owned());
            if let Some(c) = &cand {
                let mut probes = small_ints();
                if nullable { probes.push(FieldValue::Null); }
                for v in probes.iter() {
                    let ok = passes(v, op1, &a1) && (nf == 1 || passes(v, op2, &a2));
                    if ok && !mem(c, v) {
                        failures.insert(format!("fn=candidate_from_statically_evaluated_filters ops=[{}{}] excluded a passing value (v null: {})", op1, if nf == 2 { format!(", {op2}") } else { String::new() }, matches!(v, FieldValue::Null)));
                    }
                }
            }
            n += 1;
        } }
    } } } }
    vk::grid_done("c04_grid_static_candidates", n);
    if !failures.is_empty() { panic!("hint soundness failures: {{{}}}", failures.into_iter().collect::<Vec<_>>().join("; ")); }
}

const COPS: [&str; 8] = ["=", "!=", "<", "<=", ">", ">=", "one_of", "not_one_of"];
// @grid c04_grid_fold_requires_element tier=quick bound="1 or 2 count filters from {=,!=,<,<=,>,>=,one_of,not_one_of}; arguments: 10 boundary integers, 4 lists"
// @ob fold_requires_at_least_one_element == true  =>  an empty fold (count 0) fails at least one count filter (so treating the folded edge as mandatory never loses a row)
pub(crate) fn c04_grid_fold_requires_element() {
    let mut n = 0u64;
    let mut failures = BTreeSet::new();
    for nf in 1..=2usize { for op1 in COPS { for op2 in COPS {
        if nf == 1 && op2 != "=" { continue; }
        for a1 in args_for(op1, false) { for a2 in (if nf == 2 { args_for(op2, false) } else { vec![FieldValue::Null] }) {
            vk::grid_case(format_args!("filters={} op1={} arg1={:?} op2={} arg2={:?}", nf, op1, a1, op2, a2));
            let mut vars = BTreeMap::new();
            vars.insert(Arc::from("x"), a1.clone());
            vars.insert(Arc::from("y"), a2.clone());
            let mut post = vec![mk_static_filter(FoldSpecificFieldKind::Count, op1, "x")];
            if nf == 2 { post.push(mk_static_filter(FoldSpecificFieldKind::Count, op2, "y")); }
            let comp = Arc::new(IRQueryComponent { root: Vid::new(nz(2)), vertices: BTreeMap::new(), edges: BTreeMap::new(), folds: BTreeMap::new(), outputs: BTreeMap::new() });
            let fold = IRFold { eid: Eid::new(nz(1)), from_vid: Vid::new(nz(1)), to_vid: Vid::new(nz(2)), edge_name: Arc::from("e"), parameters: EdgeParameters::default(), component: comp,
                                imported_tags: vec![], fold_specific_outputs: BTreeMap::new(), post_filters: post };
            let required = filters::fold_requires_at_least_one_element(&vars, &fold);
            let zero = FieldValue::Uint64(0);
            let empty_passes = passes(&zero, op1, &a1) && (nf == 1 || passes(&zero, op2, &a2));
            if required && empty_passes {
                failures.insert(format!("fn=fold_requires_at_least_one_element ops=[{}{}] says required although an empty fold passes", op1, if nf == 2 { format!(", {op2}") } else { String::new() }));
            }
            n += 1;
        } }
    } } }
    vk::grid_done("c04_grid_fold_requires_element", n);
    if !failures.is_empty() { panic!("hint soundness failures: {{{}}}", failures.into_iter().collect::<Vec<_>>().join("; ")); }
}

// @grid c04_grid_scope_monotonicity tier=quick bound="paths of 2 edges from the resolving vertex; each edge plain/@optional/@recurse(1)/@recurse(3)/fold with count filter >= 0, >= 1 or none; source = ResolveInfo, ResolveEdgeInfo or a NeighborInfo"
// @ob filters reported for a neighbouring vertex are non-binding whenever any edge on the path to it is @optional or is a fold that is not required to be non-empty, and locally when the last edge is @recurse with depth >= 2; edges that are @optional, @recurse or possibly-empty folds are never reported as mandatory
pub(crate) fn c04_grid_scope_monotonicity() {
    let mut n = 0u64;
    let mut failures = BTreeSet::new();
    // edge kinds: 0 plain, 1 optional, 2 recurse(1), 3 recurse(3), 4 fold no filter, 5 fold count >= 1, 6 fold count >= 0
    let mut vars = BTreeMap::new();
    vars.insert(Arc::from("one"), FieldValue::Int64(1));
    vars.insert(Arc::from("zero"), FieldValue::Int64(0));
    let q = tiny_query(vars);
    let mk_fold = |eid: usize, kind: usize| {
        let comp = Arc::new(IRQueryComponent { root: Vid::new(nz(eid + 1)), vertices: BTreeMap::new(), edges: BTreeMap::new(), folds: BTreeMap::new(), outputs: BTreeMap::new() });
        let post = match kind { 5 => vec![mk_static_filter(FoldSpecificFieldKind::Count, ">=", "one")], 6 => vec![mk_static_filter(FoldSpecificFieldKind::Count, ">=", "zero")], _ => vec![] };
        IRFold { eid: Eid::new(nz(eid)), from_vid: Vid::new(nz(eid)), to_vid: Vid::new(nz(eid + 1)), edge_name: Arc::from("e"), parameters: EdgeParameters::default(), component: comp,
                 imported_tags: vec![], fold_specific_outputs: BTreeMap::new(), post_filters: post }
    };
    let step = |src: &dyn InternalVertexInfo, eid: usize, kind: usize| -> EdgeInfo {
        match kind {
            0 => src.make_non_folded_edge_info(&mk_edge(eid, false, 0)),
            1 => src.make_non_folded_edge_info(&mk_edge(eid, true, 0)),
            2 => src.make_non_folded_edge_info(&mk_edge(eid, false, 1)),
            3 => src.make_non_folded_edge_info(&mk_edge(eid, false, 3)),
            _ => src.make_folded_edge_info(&mk_fold(eid, kind)),
        }
    };
    let opens_optional_scope = |kind: usize| kind == 1 || kind == 4 || kind == 6;
    let never_mandatory = |kind: usize| kind == 1 || kind == 2 || kind == 3 || kind == 4 || kind == 6;
    for k1 in 0..7usize { for k2 in 0..7usize {
        vk::grid_case(format_args!("edge1_kind={} edge2_kind={}", k1, k2));
        let src = ResolveInfo::new(q.clone(), Vid::new(nz(1)), true);
        let e1 = step(&src, 1, k1);
        if never_mandatory(k1) && e1.is_mandatory() { failures.insert(format!("edge kind {k1} from ResolveInfo reported mandatory")); }
        if (opens_optional_scope(k1) || k1 == 3) && !e1.destination.non_binding_filters() { failures.insert(format!("ResolveInfo -> edge kind {k1}: destination filters reported binding")); }
        let e2 = step(&e1.destination, 2, k2);
        if never_mandatory(k2) && e2.is_mandatory() { failures.insert(format!("edge kind {k2} from NeighborInfo reported mandatory")); }
        if (opens_optional_scope(k1) || opens_optional_scope(k2) || k2 == 3) && !e2.destination.non_binding_filters() {
            failures.insert(format!("NeighborInfo(after edge kind {k1}) -> edge kind {k2}: destination filters reported binding inside an optional scope"));
        }
        n += 1;
    } }
    vk::grid_done("c04_grid_scope_monotonicity", n);
    if !failures.is_empty() { panic!("hint soundness failures: {{{}}}", failures.into_iter().collect::<Vec<_>>().join("; ")); }
}

// (A Kani harness-asserted contract for candidate_from_statically_evaluated_filters with ONE filter and a
//  one-entry variable map was tried: itertools::partition_map + Vec<CandidateValue<Cow<..>>> + intersect
//  does not finish in 10 minutes / 18 GB, so the function stays with the native grid above.)
