// @target trustfall_core/src/lib.rs
// @module verif_c04e
// @cfg all(test, verif_replay)
// @fn trustfall_core/src/interpreter/hints/vertex_info.rs::statically_required_property
// @fn trustfall_core/src/interpreter/hints/vertex_info.rs::dynamically_required_property
// @fn trustfall_core/src/interpreter/hints/vertex_info.rs::first_mandatory_edge
//
// The statement itself as a relation between two executions of the real engine: an adapter that
// discards vertices whose property values fall outside the candidates reported by the hints
// (static or dynamic), or that lack an edge reported as mandatory, must return exactly the rows of
// the adapter that ignores the hints. A pruning wrapper around the repository's numbers adapter
// uses every hint entry point of the public VertexInfo API; both adapters run the corpus and a family
// of hint-specific shapes. Bounded native stand-in.
use crate::interpreter::execution::interpret_ir;
use crate::interpreter::{Adapter, AsVertex, CandidateValue, ContextIterator, ContextOutcomeIterator, DataContext, ResolveEdgeInfo, ResolveInfo, VertexInfo, VertexIterator};
use crate::ir::{EdgeParameters, FieldValue};
use crate::numbers_interpreter::{NumbersAdapter, NumbersVertex};
use crate::verif_corpus::{corpus, Row};
use crate::verif_vk as vk;
use std::cell::Cell;
use std::collections::{BTreeMap, BTreeSet};
use std::rc::Rc;
use std::sync::Arc;

fn admits(c: &CandidateValue<FieldValue>, v: &FieldValue) -> bool {
    match c {
        CandidateValue::Impossible => false,
        CandidateValue::Single(s) => s == v,
        CandidateValue::Multiple(m) => m.iter().any(|x| x == v),
        CandidateValue::Range(r) => r.contains(v),
        CandidateValue::All => true,
        _ => true,
    }
}
const EDGES: [&str; 5] = ["predecessor", "successor", "multiple", "divisor", "primeFactor"];
const PROPS: [&str; 2] = ["value", "name"];

struct Pruner { inner: Rc<NumbersAdapter>, hints_used: Rc<Cell<u64>> }

fn type_of(v: &NumbersVertex) -> Arc<str> { Arc::from(crate::interpreter::Typename::typename(v)) }

impl Pruner {
    fn prop(inner: &NumbersAdapter, v: &NumbersVertex, name: &str, ri: &ResolveInfo) -> FieldValue {
        let ctx: ContextIterator<'static, NumbersVertex> = Box::new(std::iter::once(DataContext::new(Some(v.clone()))));
        inner.resolve_property(ctx, &type_of(v), &Arc::from(name), ri).next().expect("one value").1
    }
    fn neighbors(inner: &NumbersAdapter, v: &NumbersVertex, edge: &str, params: &EdgeParameters, rei: &ResolveEdgeInfo) -> Vec<NumbersVertex> {
        let ty = type_of(v);
        if (edge == "divisor" || edge == "primeFactor") && ty.as_ref() != "Composite" { return vec![]; }
        let ctx: ContextIterator<'static, NumbersVertex> = Box::new(std::iter::once(DataContext::new(Some(v.clone()))));
        inner.resolve_neighbors(ctx, &ty, &Arc::from(edge), params, rei).next().expect("one outcome").1.collect()
    }
}

/// Does the vertex survive every static hint the engine reports for it (property candidates and mandatory edges)?
fn survives_static(inner: &NumbersAdapter, info: &dyn VertexInfo, v: &NumbersVertex, ri: &ResolveInfo, rei: Option<&ResolveEdgeInfo>, used: &Cell<u64>, depth: u32) -> bool {
    for p in PROPS {
        if let Some(c) = info.statically_required_property(p) {
            used.set(used.get() + 1);
            if !admits(&c, &Pruner::prop(inner, v, p, ri)) { return false; }
        }
    }
    if let (Some(rei), true) = (rei, depth < 2) {
        for e in EDGES {
            if let Some(edge) = info.first_mandatory_edge(e) {
                used.set(used.get() + 1);
                let ns = Pruner::neighbors(inner, v, e, edge.parameters(), rei);
                if !ns.iter().any(|nv| survives_static(inner, edge.destination(), nv, ri, Some(rei), used, depth + 1)) { return false; }
            }
        }
    }
    true
}

impl<'a> Adapter<'a> for Pruner {
    type Vertex = NumbersVertex;
    fn resolve_starting_vertices(&self, edge_name: &Arc<str>, parameters: &EdgeParameters, resolve_info: &ResolveInfo) -> VertexIterator<'a, Self::Vertex> {
        let all: Vec<NumbersVertex> = self.inner.resolve_starting_vertices(edge_name, parameters, resolve_info).collect();
        let kept: Vec<NumbersVertex> = all.into_iter().filter(|v| survives_static(&self.inner, resolve_info, v, resolve_info, None, &self.hints_used, 0)).collect();
        Box::new(kept.into_iter())
    }
    fn resolve_property<V: AsVertex<Self::Vertex> + 'a>(&self, contexts: ContextIterator<'a, V>, type_name: &Arc<str>, property_name: &Arc<str>, resolve_info: &ResolveInfo) -> ContextOutcomeIterator<'a, V, FieldValue> {
        self.inner.resolve_property(contexts, type_name, property_name, resolve_info)
    }
    fn resolve_neighbors<V: AsVertex<Self::Vertex> + 'a>(&self, contexts: ContextIterator<'a, V>, type_name: &Arc<str>, edge_name: &Arc<str>, parameters: &EdgeParameters, resolve_info: &ResolveEdgeInfo) -> ContextOutcomeIterator<'a, V, VertexIterator<'a, Self::Vertex>> {
        let dest = resolve_info.destination();
        // a ResolveInfo for property lookups on single vertices (the numbers adapter ignores it)
        let ri = ResolveInfo::new(resolve_info.clone().into_inner(), resolve_info.origin_vid(), true);
        let inner = self.inner.clone();
        let used = self.hints_used.clone();
        let (edge_name2, params2, rei2) = (edge_name.clone(), parameters.clone(), resolve_info.clone());
        let dest2 = dest.clone();
        // dynamic candidates for either property of the destination
        for p in PROPS {
            if let Some(dynamic) = dest.dynamically_required_property(p) {
                used.set(used.get() + 1);
                // the returned value borrows `dest`; resolve eagerly
                let contexts: Vec<DataContext<V>> = contexts.collect();
                let out: Vec<(DataContext<V>, Vec<NumbersVertex>)> = dynamic
                    .resolve_with(self.inner.as_ref(), Box::new(contexts.into_iter()), {
                        let (inner, ri, rei2, dest2, used) = (inner.clone(), ri.clone(), rei2.clone(), dest2.clone(), used.clone());
                        move |vertex: &NumbersVertex, candidate: CandidateValue<FieldValue>| -> VertexIterator<'a, NumbersVertex> {
                            let ns = Pruner::neighbors(&inner, vertex, &edge_name2, &params2, &rei2);
                            let kept: Vec<NumbersVertex> = ns.into_iter()
                                .filter(|nv| admits(&candidate, &Pruner::prop(&inner, nv, p, &ri)) && survives_static(&inner, &dest2, nv, &ri, Some(&rei2), &used, 0))
                                .collect();
                            Box::new(kept.into_iter())
                        }
                    })
                    .map(|(c, it)| (c, it.collect::<Vec<_>>()))
                    .collect();
                return Box::new(out.into_iter().map(|(c, v)| (c, Box::new(v.into_iter()) as VertexIterator<'a, NumbersVertex>)));
            }
        }
        let raw: Vec<(DataContext<V>, Vec<NumbersVertex>)> = self.inner.resolve_neighbors(contexts, type_name, edge_name, parameters, resolve_info).map(|(c, it)| (c, it.collect::<Vec<_>>())).collect();
        Box::new(raw.into_iter().map(move |(c, ns)| {
            let kept: Vec<NumbersVertex> = ns.into_iter().filter(|nv| survives_static(&inner, &dest2, nv, &ri, Some(&rei2), &used, 0)).collect();
            (c, Box::new(kept.into_iter()) as VertexIterator<'a, NumbersVertex>)
        }))
    }
    fn resolve_coercion<V: AsVertex<Self::Vertex> + 'a>(&self, contexts: ContextIterator<'a, V>, type_name: &Arc<str>, coerce_to_type: &Arc<str>, resolve_info: &ResolveInfo) -> ContextOutcomeIterator<'a, V, bool> {
        self.inner.resolve_coercion(contexts, type_name, coerce_to_type, resolve_info)
    }
}

fn rows_plain(iq: &Arc<crate::ir::IndexedQuery>, args: &BTreeMap<Arc<str>, FieldValue>) -> Option<Vec<Row>> {
    interpret_ir(Arc::new(NumbersAdapter::new()), iq.clone(), Arc::new(args.clone())).ok().map(|r| r.take(2000).collect())
}
fn rows_pruned(iq: &Arc<crate::ir::IndexedQuery>, args: &BTreeMap<Arc<str>, FieldValue>, used: &Rc<Cell<u64>>) -> Result<Vec<Row>, String> {
    let iq = iq.clone(); let args = args.clone(); let used = used.clone();
    std::panic::catch_unwind(std::panic::AssertUnwindSafe(move || {
        let adapter = Arc::new(Pruner { inner: Rc::new(NumbersAdapter::new()), hints_used: used });
        interpret_ir(adapter, iq, Arc::new(args)).expect("arguments accepted").take(2000).collect::<Vec<_>>()
    })).map_err(|p| p.downcast_ref::<String>().cloned().or_else(|| p.downcast_ref::<&str>().map(|s| s.to_string())).unwrap_or_default())
}

const SHAPES: [&str; 19] = [
    r#"{ Number(min: 0, max: 9) { value @output @filter(op: "{OP}", value: ["$x"]) } }"#,
    r#"{ Number(min: 0, max: 9) { successor { value @output @filter(op: "{OP}", value: ["$x"]) } } }"#,
    r#"{ Number(min: 0, max: 9) { value @tag(name: "t") @output successor { successor { value @output(name: "s") @filter(op: "{OP}", value: ["%t"]) } } } }"#,
    r#"{ Number(min: 0, max: 9) { value @tag(name: "t") @output multiple(max: 4) { value @output(name: "m") @filter(op: "{OP}", value: ["%t"]) } } }"#,
    r#"{ Number(min: 0, max: 9) { value @output successor { predecessor @optional { value @output(name: "p") @filter(op: "{OP}", value: ["$x"]) } } } }"#,
    r#"{ Number(min: 0, max: 9) { value @output predecessor @optional { value @output(name: "p") @filter(op: "{OP}", value: ["$x"]) } } }"#,
    r#"{ Number(min: 0, max: 9) { value @output successor { multiple(max: 3) @fold { value @output(name: "m") @filter(op: "{OP}", value: ["$x"]) } } } }"#,
    r#"{ Number(min: 0, max: 9) { value @output successor { multiple(max: 3) @fold @transform(op: "count") @filter(op: "one_of", value: ["$counts"]) { value @output(name: "m") @filter(op: "{OP}", value: ["$x"]) } } } }"#,
    r#"{ Number(min: 0, max: 9) { value @output multiple(max: 3) @fold @transform(op: "count") @filter(op: ">=", value: ["$one"]) { value @output(name: "m") @filter(op: "{OP}", value: ["$x"]) } } }"#,
    r#"{ Number(min: 0, max: 9) { value @output successor @recurse(depth: 2) { value @output(name: "r") @filter(op: "{OP}", value: ["$x"]) } } }"#,
    r#"{ Number(min: 0, max: 9) { value @output @tag(name: "t") successor { value @tag(name: "u") successor { value @output(name: "s") @filter(op: ">", value: ["%t"]) @filter(op: "{OP}", value: ["%u"]) } } } }"#,
    r#"{ Number(min: 0, max: 9) { value @output @tag(name: "t") successor { value @tag(name: "u") successor { value @output(name: "s") @filter(op: "{OP}", value: ["%u"]) @filter(op: "=", value: ["$x"]) @filter(op: "<", value: ["%t"]) } } } }"#,
    r#"{ Number(min: 0, max: 9) { value @output @filter(op: "{OP}", value: ["$x"]) @filter(op: "!=", value: ["$y"]) successor { value @output(name: "s") @filter(op: "not_one_of", value: ["$counts"]) } } }"#,
    r#"{ Number(min: 0, max: 9) { name @tag(name: "n") value @output successor { name @output(name: "sn") @filter(op: "{OP}", value: ["%n"]) } } }"#,
    r#"{ Number(min: 0, max: 9) { value @output multiple(max: 3) @fold @transform(op: "count") @tag(name: "c") { value @output(name: "m") } successor { value @output(name: "s") @filter(op: "{OP}", value: ["%c"]) } } }"#,
    r#"{ Number(min: 18, max: 23) { name @tag(name: "n") value @output successor { name @output(name: "sn") @filter(op: "{OP}", value: ["%n"]) } } }"#,
    // several satisfiable tag filters on one property, the preferred (`=`) one not written first / written first
    r#"{ Number(min: 0, max: 9) { value @tag(name: "t") @output successor { value @tag(name: "u") predecessor { value @output(name: "s") @filter(op: "{OP}", value: ["%u"]) @filter(op: "=", value: ["%t"]) } } } }"#,
    r#"{ Number(min: 0, max: 9) { value @tag(name: "t") @output successor { value @tag(name: "u") predecessor { value @output(name: "s") @filter(op: "=", value: ["%t"]) @filter(op: "{OP}", value: ["%u"]) } } } }"#,
    r#"{ Number(min: 0, max: 9) { value @tag(name: "t") @output successor { value @tag(name: "u") successor { value @tag(name: "w") predecessor { predecessor { value @output(name: "s") @filter(op: "{OP}", value: ["%w"]) @filter(op: "<", value: ["%u"]) @filter(op: "!=", value: ["%w"]) } } } } } }"#,
];

// @grid c04_grid_pruning_adapter_equivalence tier=quick bound="[+ 300 seeded random accepted documents, VERIF_SEED] every numbers-schema query of the corpus plus 16 hint-specific shapes (static/dynamic filters on the current vertex, a neighbour, behind @optional, inside @fold with and without count filters, behind @recurse, several tag filters on one property, fold-count tags, nullable tags) x operators {=, !=, <, <=, >, >=} x arguments {0, 3, 5, 9}; numbers 0..9"
// @ob an adapter that prunes with every hint entry point (statically_required_property, dynamically_required_property(..).resolve_with, first_mandatory_edge and the hints of the edge's destination) returns exactly the rows of the adapter that ignores the hints
pub(crate) fn c04_grid_pruning_adapter_equivalence() {
    pruning_grid("c04_grid_pruning_adapter_equivalence", false);
}

/// `field >= %tag` filters are split off: the dynamic hint for them is a recorded known finding.
fn has_ge_tag_filter(q: &str) -> bool {
    let compact: String = q.chars().filter(|c| !c.is_whitespace()).collect();
    compact.contains(r#"@filter(op:">=",value:["%"#)
}

// @grid c04_grid_pruning_adapter_equivalence_ge_tags tier=quick bound="the same corpus and shapes, restricted to queries containing a `>=` filter whose argument is a tag"
// @ob same obligation for queries with a `field >= %tag` filter (kept separate: see known_findings.txt)
pub(crate) fn c04_grid_pruning_adapter_equivalence_ge_tags() {
    pruning_grid("c04_grid_pruning_adapter_equivalence_ge_tags", true);
}

fn pruning_grid(name: &str, ge_tags: bool) {
    let mut n = 0u64;
    let mut failures = BTreeSet::new();
    let used = Rc::new(Cell::new(0u64));
    let schema = NumbersAdapter::new();
    let mut cases: Vec<(String, String, BTreeMap<Arc<str>, FieldValue>)> = Vec::new();
    for c in corpus() { if c.schema_name == "numbers" { cases.push((c.name.clone(), c.query.clone(), c.arguments.clone())); } }
    // seeded random accepted documents: only in the grid that must pass (the `>=`-with-tag grid is pinned to an exact known failure set)
    if !ge_tags { for (i, (d, _)) in crate::verif_random::accepted(600, 4).into_iter().take(300).enumerate() { cases.push((format!("rnd_{i} {}", d.query), d.query, d.arguments)); } }
    for (i, shape) in SHAPES.iter().enumerate() { for op in ["=", "!=", "<", "<=", ">", ">="] { for x in [0i64, 3, 5, 9] {
        let q = shape.replace("{OP}", op);
        let mut args: BTreeMap<Arc<str>, FieldValue> = BTreeMap::new();
        if q.contains("$x") { args.insert(Arc::from("x"), FieldValue::Int64(x)); }
        if q.contains("$y") { args.insert(Arc::from("y"), FieldValue::Int64(x + 1)); }
        if q.contains("$one") { args.insert(Arc::from("one"), FieldValue::Int64(1)); }
        if q.contains("$counts") { args.insert(Arc::from("counts"), FieldValue::List(vec![FieldValue::Int64(0), FieldValue::Int64(x % 3 + 1)].into())); }
        if !q.contains("$x") && !q.contains("$y") && !q.contains("$counts") && x != 0 { continue; }
        cases.push((format!("shape{} op={} x={}", i, op, x), q, args));
    } } }
    for (label, q, args) in cases {
        if has_ge_tag_filter(&q) != ge_tags { continue; }
        vk::grid_case(format_args!("{}", label));
        let Ok(iq) = crate::frontend::parse(schema.schema(), &q) else { continue; };
        let Some(plain) = rows_plain(&iq, &args) else { continue; };
        match rows_pruned(&iq, &args, &used) {
            Ok(pruned) => if pruned != plain {
                let key = label.split(" x=").next().unwrap_or(&label).to_string();
                failures.insert(format!("{key}: pruning with the hints changed the results ({} rows instead of {})", pruned.len(), plain.len()));
            },
            Err(m) => { failures.insert(format!("{}: the hint computation panicked ({})", label.split(" x=").next().unwrap_or(&label), m.lines().next().unwrap_or(""))); }
        }
        n += 1;
    }
    assert!(used.get() > if ge_tags { 5 } else { 200 }, "vacuous: the pruning adapter almost never received a hint");
    vk::grid_done(name, n);
    if !failures.is_empty() { panic!("hint soundness failures: {{{}}}", failures.into_iter().collect::<Vec<_>>().join("; ")); }
}
