// @target trustfall_core/src/interpreter/hints/dynamic.rs
// @module verif_c04
// @fn compute_candidate_from_operation
// @fn DynamicallyResolvedValue::resolve_fold_specific_field
//
// Both functions hand their work to boxed `map` closures over (DataContext, TaggedValue) pairs; the
// design phase measured no CBMC result in 5-15 minutes for four formulations, so they get the
// bounded stand-in: the soundness contract is executed natively on the real functions over an
// exhaustive boundary grid (labelled bounded, never counted as proved).
use super::*;
use crate::interpreter::filtering::{equals, greater_than, greater_than_or_equal, less_than, less_than_or_equal, one_of};
use crate::interpreter::DataContext;
use crate::ir::{Eid, FoldSpecificFieldKind, IRQuery, IndexedQuery, Vid, EdgeParameters};
use crate::verif_vk as vk;
use std::collections::{BTreeMap, BTreeSet};
use std::num::NonZeroUsize;

pub(crate) fn mem(c: &CandidateValue<FieldValue>, v: &FieldValue) -> bool {
    match c {
        CandidateValue::Impossible => false,
        CandidateValue::Single(s) => s == v,
        CandidateValue::Multiple(m) => m.iter().any(|x| x == v),
        CandidateValue::Range(r) => r.contains(v),
        CandidateValue::All => true,
        _ => unreachable!(),
    }
}
/// The declarative meaning of `field OP tag`: the engine's own filter operator (C07).
pub(crate) fn passes(v: &FieldValue, op: &str, t: &FieldValue) -> bool {
    match op {
        "=" => equals(v, t), "!=" => !equals(v, t), "<" => less_than(v, t), "<=" => less_than_or_equal(v, t),
        ">" => greater_than(v, t), ">=" => greater_than_or_equal(v, t), "one_of" => one_of(v, t), _ => unreachable!(),
    }
}
fn mk_op(op: &str) -> Operation<(), ()> {
    match op {
        "=" => Operation::Equals((), ()), "!=" => Operation::NotEquals((), ()), "<" => Operation::LessThan((), ()), "<=" => Operation::LessThanOrEqual((), ()),
        ">" => Operation::GreaterThan((), ()), ">=" => Operation::GreaterThanOrEqual((), ()), "one_of" => Operation::OneOf((), ()), _ => unreachable!(),
    }
}
fn relation(v: &FieldValue, t: &FieldValue) -> &'static str {
    if matches!(v, FieldValue::Null) { return "v=null"; }
    if matches!(t, FieldValue::Null) { return "t=null"; }
    if matches!(t, FieldValue::List(_)) { return "t=list"; }
    match v.partial_cmp(t) { Some(std::cmp::Ordering::Less) => "v<t", Some(std::cmp::Ordering::Equal) => "v==t", _ => "v>t" }
}
fn ints() -> Vec<FieldValue> {
    vk::GRID_I64.iter().map(|x| FieldValue::Int64(*x)).chain(vk::GRID_U64.iter().map(|x| FieldValue::Uint64(*x))).collect()
}
fn initials() -> Vec<(&'static str, CandidateValue<FieldValue>)> {
    vec![("All", CandidateValue::All), ("NonNull", CandidateValue::Range(Range::full_non_null()))]
}
fn finish(name: &str, n: u64, failures: BTreeSet<String>) {
    vk::grid_done(name, n);
    if !failures.is_empty() {
        panic!("hint soundness failures: {{{}}}", failures.into_iter().collect::<Vec<_>>().join("; "));
    }
}

fn dyn_candidate(op: &str, init: &CandidateValue<FieldValue>, tag: TaggedValue) -> CandidateValue<FieldValue> {
    let it: ContextOutcomeIterator<'static, (), TaggedValue> = Box::new(std::iter::once((DataContext::new(Some(())), tag)));
    let mut out = compute_candidate_from_operation(&mk_op(op), init.clone(), "f".into(), Type::parse("Int").unwrap(), it);
    let (_ctx, cand) = out.next().expect("one candidate per context");
    assert!(out.next().is_none(), "exactly one candidate per context");
    cand
}

fn dynamic_grid(name: &str, ops: &[&str], with_null_tag: bool) {
    let mut n = 0u64;
    let mut failures = BTreeSet::new();
    let mut tags = ints();
    if with_null_tag { tags = vec![FieldValue::Null]; }
    let mut probes = ints();
    probes.push(FieldValue::Null);
    for op in ops { for (iname, init) in initials() {
        // a tag from an @optional scope that does not exist must leave the candidate unchanged
        let untouched = dyn_candidate(op, &init, TaggedValue::NonexistentOptional);
        if untouched != init { failures.insert(format!("fn=compute_candidate_from_operation op={op} nonexistent-optional tag changed the candidate")); }
        let tag_list: Vec<FieldValue> = if *op == "one_of" {
            vec![FieldValue::List(vec![].into()), FieldValue::List(vec![FieldValue::Int64(-1), FieldValue::Uint64(u64::MAX)].into()), FieldValue::List(vec![FieldValue::Null, FieldValue::Uint64(2)].into())]
        } else { tags.clone() };
        for t in tag_list.iter() {
            vk::grid_case(format_args!("fn=compute_candidate_from_operation op={} initial={} tag={:?}", op, iname, t));
            // a panic inside the hint computation is recorded as a failure of this case (and the grid goes on)
            let attempt = std::panic::catch_unwind(std::panic::AssertUnwindSafe(|| dyn_candidate(op, &init, TaggedValue::Some(t.clone()))));
            let cand = match attempt {
                Ok(c) => c,
                Err(e) => {
                    let msg = e.downcast_ref::<String>().cloned().or_else(|| e.downcast_ref::<&str>().map(|s| s.to_string())).unwrap_or_default();
                    failures.insert(format!("fn=compute_candidate_from_operation op={} tag={} panics({})", op, if matches!(t, FieldValue::Null) { "null" } else { "non-null" }, msg));
                    n += 1;
                    continue;
                }
            };
            for v in probes.iter() {
                if mem(&init, v) && passes(v, op, t) && !mem(&cand, v) {
                    failures.insert(format!("fn=compute_candidate_from_operation op={} relation={}", op, relation(v, t)));
                }
            }
            n += 1;
        }
    } }
    finish(name, n, failures);
}

// @grid c04_grid_dynamic_candidates tier=quick bound="operators =, !=, <, <=, >, one_of; tag values: 17 boundary integers in both representations / 3 lists; initial candidate All or non-null; probes: the same integers and null"
// @ob compute_candidate_from_operation: every value v admitted by the initial candidate that satisfies `v OP tag` (engine's own operator) is contained in the resulting candidate; a NonexistentOptional tag leaves the candidate unchanged
pub(crate) fn c04_grid_dynamic_candidates() {
    dynamic_grid("c04_grid_dynamic_candidates", &["=", "!=", "<", "<=", ">", "one_of"], false);
}

// @grid c04_grid_dynamic_candidates_ge tier=quick bound="operator >= ; same grid"
// @ob same obligation for the >= arm (kept separate: see known_findings.txt)
pub(crate) fn c04_grid_dynamic_candidates_ge() {
    dynamic_grid("c04_grid_dynamic_candidates_ge", &[">="], false);
}

// @grid c04_grid_dynamic_null_tag tier=quick bound="operators =, !=, <, <=, >, >= with a null tag value (a nullable tagged property)"
// @ob with a null tag value the hint computation neither panics nor excludes a passing value
pub(crate) fn c04_grid_dynamic_null_tag() {
    dynamic_grid("c04_grid_dynamic_null_tag", &["=", "!=", "<", "<=", ">", ">="], true);
}

// ---- resolve_fold_specific_field (tags on a fold's count) ----------------------------------------
fn one() -> NonZeroUsize { NonZeroUsize::new(1).unwrap() }
fn fold_count_candidate(op: &str, init: &CandidateValue<FieldValue>, fold_size: Option<usize>) -> CandidateValue<FieldValue> {
    let comp = Arc::new(IRQueryComponent { root: Vid::new(one()), vertices: BTreeMap::new(), edges: BTreeMap::new(), folds: BTreeMap::new(), outputs: BTreeMap::new() });
    let iq = IndexedQuery {
        ir_query: IRQuery { root_name: Arc::from("R"), root_parameters: EdgeParameters::default(), root_component: comp.clone(), variables: BTreeMap::new() },
        vids: BTreeMap::new(), eids: BTreeMap::new(), outputs: BTreeMap::new(),
    };
    let query = InterpretedQuery { indexed_query: Arc::new(iq), arguments: Arc::new(BTreeMap::new()) };
    let ff = FoldSpecificField { fold_eid: Eid::new(one()), fold_root_vid: Vid::new(NonZeroUsize::new(2).unwrap()), kind: FoldSpecificFieldKind::Count };
    let field = FieldRef::FoldSpecificField(ff.clone());
    let drv = DynamicallyResolvedValue::new(query, comp.as_ref(), &field, mk_op(op), init.clone());
    let mut ctx: DataContext<()> = DataContext::new(Some(()));
    ctx.folded_contexts.insert(Eid::new(one()), fold_size.map(|k| (0..k).map(|_| DataContext::new(Some(()))).collect()));
    let it: ContextIterator<'static, ()> = Box::new(std::iter::once(ctx));
    let mut out = drv.resolve_fold_specific_field(&ff, it);
    out.next().expect("one candidate per context").1
}

fn fold_grid(name: &str, ops: &[&str]) {
    let mut n = 0u64;
    let mut failures = BTreeSet::new();
    let probes: Vec<FieldValue> = (0..9u64).map(FieldValue::Uint64).chain((0..9i64).map(FieldValue::Int64)).chain([FieldValue::Uint64(u64::MAX), FieldValue::Null]).collect();
    for op in ops { for (iname, init) in initials() {
        let untouched = fold_count_candidate(op, &init, None);
        if untouched != init { failures.insert(format!("fn=resolve_fold_specific_field op={op} nonexistent fold changed the candidate")); }
        for k in 0..7usize {
            vk::grid_case(format_args!("fn=resolve_fold_specific_field op={} initial={} fold_count={}", op, iname, k));
            let t = FieldValue::Uint64(k as u64);
            let cand = fold_count_candidate(op, &init, Some(k));
            for v in probes.iter() {
                if mem(&init, v) && passes(v, op, &t) && !mem(&cand, v) {
                    failures.insert(format!("fn=resolve_fold_specific_field op={} relation={}", op, relation(v, &t)));
                }
            }
            n += 1;
        }
    } }
    finish(name, n, failures);
}

// @grid c04_grid_fold_count_tag_candidates tier=quick bound="operators =, !=, <, <=, > ; fold sizes 0..6 and a nonexistent fold; probes 0..8 in both representations, u64::MAX, null"
// @ob resolve_fold_specific_field: every value that satisfies `v OP fold-count` is contained in the resulting candidate; a fold inside a nonexistent @optional leaves the candidate unchanged
pub(crate) fn c04_grid_fold_count_tag_candidates() {
    fold_grid("c04_grid_fold_count_tag_candidates", &["=", "!=", "<", "<=", ">"]);
}

// @grid c04_grid_fold_count_tag_candidates_ge tier=quick bound="operator >= ; same grid"
// @ob same obligation for the >= arm (kept separate: see known_findings.txt)
pub(crate) fn c04_grid_fold_count_tag_candidates_ge() {
    fold_grid("c04_grid_fold_count_tag_candidates_ge", &[">="]);
}
