// @target trustfall_core/src/lib.rs
// @module verif_c23
// @cfg all(test, verif_replay)
// @fn trustfall_core/src/interpreter/execution.rs::interpret_ir
//
// The statement is a list of relations between the results of two queries; each is evaluated on the real
// frontend + engine for enumerated pairs of queries over the numbers dataset. Bounded native stand-in.
use crate::ir::FieldValue;
use crate::verif_corpus::{run_numbers, Row, Run};
use crate::verif_vk as vk;
use std::collections::BTreeSet;
use std::sync::Arc;

fn rows(q: &str, args: &[(&str, FieldValue)], failures: &mut BTreeSet<String>) -> Option<Vec<Row>> {
    match run_numbers(q, args, 100_000) {
        Run::Rows(_, r) => Some(r),
        Run::Panic(m) => { failures.insert(format!("panic({}): {q}", m.lines().next().unwrap_or(""))); None }
        Run::FrontendError(e) => { failures.insert(format!("harness query rejected ({e}): {q}")); None }
        Run::ArgumentError(e) => { failures.insert(format!("harness arguments rejected ({e}): {q}")); None }
    }
}
fn keyed(rows: &[Row]) -> Vec<String> { let mut v: Vec<String> = rows.iter().map(|r| format!("{r:?}")).collect(); v.sort(); v }
/// multiset inclusion
fn included(a: &[String], b: &[String]) -> bool {
    let (mut i, mut j) = (0, 0);
    while i < a.len() && j < b.len() { if a[i] == b[j] { i += 1; j += 1; } else if a[i] > b[j] { j += 1; } else { return false; } }
    i == a.len()
}
fn project(rows: &[Row], keep: &[&str]) -> Vec<String> {
    let mut v: Vec<String> = rows.iter().map(|r| format!("{:?}", keep.iter().map(|k| (k.to_string(), r.get(&Arc::from(*k) as &Arc<str>).cloned())).collect::<Vec<_>>())).collect();
    v.sort(); v
}

// @grid c23_grid_query_transformations tier=quick bound="numbers 0..8; edges predecessor/successor/multiple(max:3) x scopes plain/@optional/@fold x 6 comparison operators x arguments {0,2,5}; recursion depths 1..3 on predecessor/successor and 1..5 on Composite.divisor (implicit coercion at every level) and Composite.multiple(max:2); 6 string operator pairs x 10 patterns (4 of them invalid regexes) x 3 scopes with static arguments, and with tag arguments; contains/is_null pairs; tag renaming; `=`/one_of and `!=`/not_one_of with null and string arguments on a property with null values; all ordered pairs of 32 fold-count filters on a fold with and without outputs (adding a filter never adds rows); the entry edge Number(min, max) vs the equivalent range filter (6 ranges x 4 selections)"
// @ob adding a filter never adds rows; a filter and its negation partition the rows (outside missing optional scopes); `=` agrees with one_of on a one-element list; making an edge @optional keeps all previous rows; raising a recursion depth never removes rows; renaming outputs or tags and reordering sibling selections changes no row contents; a parameterized edge (Number(min, max)) behaves like the equivalent filter
pub(crate) fn c23_grid_query_transformations() {
    let mut n = 0u64;
    let mut failures = BTreeSet::new();
    let negation = [("=", "!="), ("<", ">="), ("<=", ">"), ("one_of", "not_one_of")];
    for edge in ["predecessor", "successor", "multiple(max: 3)"] { for x in [0i64, 2, 5] {
        let base = format!(r#"{{ Number(min: 0, max: 8) {{ value @output(name: "v") {edge} {{ value @output(name: "w") }} }} }}"#);
        let Some(all) = rows(&base, &[], &mut failures) else { continue; };
        let all_k = keyed(&all);
        for (pos, neg) in negation {
            vk::grid_case(format_args!("edge={} op={} x={}", edge, pos, x));
            let arg = if pos == "one_of" { FieldValue::List(vec![FieldValue::Int64(x), FieldValue::Int64(x + 3)].into()) } else { FieldValue::Int64(x) };
            let q = |op: &str| format!(r#"{{ Number(min: 0, max: 8) {{ value @output(name: "v") {edge} {{ value @output(name: "w") @filter(op: "{op}", value: ["$x"]) }} }} }}"#);
            let (Some(rp), Some(rn)) = (rows(&q(pos), &[("x", arg.clone())], &mut failures), rows(&q(neg), &[("x", arg.clone())], &mut failures)) else { continue; };
            let (kp, kn) = (keyed(&rp), keyed(&rn));
            if !included(&kp, &all_k) || !included(&kn, &all_k) { failures.insert(format!("adding a filter ({pos}/{neg}) added rows on edge {edge}")); }
            let mut both = kp.clone(); both.extend(kn.clone()); both.sort();
            if both != all_k { failures.insert(format!("filter {pos} and its negation {neg} do not partition the rows on edge {edge}")); }
            n += 1;
        }
        // `=` vs one-element one_of
        let qe = format!(r#"{{ Number(min: 0, max: 8) {{ value @output(name: "v") {edge} {{ value @output(name: "w") @filter(op: "=", value: ["$x"]) }} }} }}"#);
        let qo = format!(r#"{{ Number(min: 0, max: 8) {{ value @output(name: "v") {edge} {{ value @output(name: "w") @filter(op: "one_of", value: ["$l"]) }} }} }}"#);
        if let (Some(a), Some(b)) = (rows(&qe, &[("x", FieldValue::Int64(x))], &mut failures), rows(&qo, &[("l", FieldValue::List(vec![FieldValue::Int64(x)].into()))], &mut failures)) {
            if a != b { failures.insert(format!("`=` and one_of with a one-element list disagree on edge {edge}")); }
        }
        // plain -> @optional keeps all previous rows
        let qopt = format!(r#"{{ Number(min: 0, max: 8) {{ value @output(name: "v") {edge} @optional {{ value @output(name: "w") @filter(op: ">", value: ["$x"]) }} }} }}"#);
        let qplain = format!(r#"{{ Number(min: 0, max: 8) {{ value @output(name: "v") {edge} {{ value @output(name: "w") @filter(op: ">", value: ["$x"]) }} }} }}"#);
        if let (Some(a), Some(b)) = (rows(&qplain, &[("x", FieldValue::Int64(x))], &mut failures), rows(&qopt, &[("x", FieldValue::Int64(x))], &mut failures)) {
            if !included(&keyed(&a), &keyed(&b)) { failures.insert(format!("making edge {edge} @optional lost rows")); }
        }
        // renaming outputs / reordering sibling selections
        let q1 = format!(r#"{{ Number(min: 0, max: 8) {{ value @output(name: "v") successor {{ value @output(name: "s") }} {edge} @fold {{ value @output(name: "w") }} }} }}"#);
        let q2 = format!(r#"{{ Number(min: 0, max: 8) {{ {edge} @fold {{ value @output(name: "renamed_w") }} value @output(name: "renamed_v") successor {{ value @output(name: "renamed_s") }} }} }}"#);
        if let (Some(a), Some(b)) = (rows(&q1, &[], &mut failures), rows(&q2, &[], &mut failures)) {
            let (pa, pb) = (project(&a, &["v", "s", "w"]), project(&b, &["renamed_v", "renamed_s", "renamed_w"]));
            let strip = |v: Vec<String>| -> Vec<String> { let mut o: Vec<String> = v.into_iter().map(|s| s.replace("renamed_", "")).collect(); o.sort(); o };
            if strip(pa) != strip(pb) { failures.insert(format!("renaming outputs / reordering siblings changed row contents (edge {edge})")); }
        }
        n += 1;
    } }
    for edge in ["predecessor", "successor"] { for d in 1..3usize {
        vk::grid_case(format_args!("recurse edge={} depth={}", edge, d));
        let q = |d: usize| format!(r#"{{ Number(min: 0, max: 8) {{ value @output(name: "v") {edge} @recurse(depth: {d}) {{ value @output(name: "w") }} }} }}"#);
        if let (Some(a), Some(b)) = (rows(&q(d), &[], &mut failures), rows(&q(d + 1), &[], &mut failures)) {
            if !included(&keyed(&a), &keyed(&b)) { failures.insert(format!("raising the recursion depth of {edge} from {d} removed rows")); }
        }
        n += 1;
    } }
    // recursion through an edge that needs an implicit coercion at every level, and through a parameterized edge
    for (outer, edge) in [("... on Composite", "divisor"), ("... on Composite", "multiple(max: 2)")] { for d in 1..4usize {
        vk::grid_case(format_args!("recurse edge={} depth={}", edge, d));
        let (open, close) = if outer.is_empty() { (String::new(), "") } else { (format!("{outer} {{"), "}") };
        let q = |d: usize| format!(r#"{{ Number(min: 1, max: 12) {{ {open} value @output(name: "v") {edge} @recurse(depth: {d}) {{ value @output(name: "w") }} {close} }} }}"#);
        if let (Some(a), Some(b)) = (rows(&q(d), &[], &mut failures), rows(&q(d + 1), &[], &mut failures)) {
            if !included(&keyed(&a), &keyed(&b)) { failures.insert(format!("raising the recursion depth of {edge} from {d} removed rows")); }
        }
        n += 1;
    } }
    // string and null operators with their negations, static and tagged arguments, valid and invalid patterns
    let string_negation = [("has_prefix", "not_has_prefix"), ("has_suffix", "not_has_suffix"), ("has_substring", "not_has_substring"), ("regex", "not_regex"), ("=", "!="), ("<", ">=")];
    let patterns = ["t", "e", "o$", "^t.*e$", "", "(", "[a-", "*", "a{2,1}", "thirteen"];
    for scope in ["", "successor", "multiple(max: 3)"] {
        let (open, close) = if scope.is_empty() { (String::new(), "") } else { (format!("{scope} {{"), "}") };
        let base = format!(r#"{{ Number(min: 0, max: 14) {{ value @output(name: "v") {open} name @output(name: "w") {close} }} }}"#);
        let Some(all) = rows(&base, &[], &mut failures) else { continue; };
        let all_k = keyed(&all);
        for (pos, neg) in string_negation { for pat in patterns {
            vk::grid_case(format_args!("scope={} op={} pattern={}", scope, pos, pat));
            let q = |op: &str| format!(r#"{{ Number(min: 0, max: 14) {{ value @output(name: "v") {open} name @output(name: "w") @filter(op: "{op}", value: ["$x"]) {close} }} }}"#);
            let arg = FieldValue::String(Arc::from(pat));
            let (Some(rp), Some(rn)) = (rows(&q(pos), &[("x", arg.clone())], &mut failures), rows(&q(neg), &[("x", arg.clone())], &mut failures)) else { continue; };
            let (kp, kn) = (keyed(&rp), keyed(&rn));
            if !included(&kp, &all_k) || !included(&kn, &all_k) { failures.insert(format!("adding a filter ({pos}/{neg}) added rows in scope [{scope}]")); }
            let mut both = kp.clone(); both.extend(kn.clone()); both.sort();
            // `<` / `>=` are complementary only on non-null operands (an ordering comparison with null is false both ways)
            let expect: Vec<String> = if pos == "<" { keyed(&all.iter().filter(|r| r[&Arc::from("w") as &Arc<str>] != FieldValue::Null).cloned().collect::<Vec<_>>()) } else { all_k.clone() };
            if both != expect { failures.insert(format!("filter {pos} and its negation {neg} do not partition the rows in scope [{scope}] for pattern [{pat}]")); }
            n += 1;
        } }
        // the same operators with the argument coming from a tag (the name of the starting vertex)
        if !scope.is_empty() { for (pos, neg) in string_negation {
            vk::grid_case(format_args!("scope={} op={} tagged", scope, pos));
            let q = |op: &str| format!(r#"{{ Number(min: 0, max: 14) {{ value @output(name: "v") name @tag(name: "t") {open} name @output(name: "w") @filter(op: "{op}", value: ["%t"]) {close} }} }}"#);
            let (Some(rp), Some(rn)) = (rows(&q(pos), &[], &mut failures), rows(&q(neg), &[], &mut failures)) else { continue; };
            let (kp, kn) = (keyed(&rp), keyed(&rn));
            let mut both = kp.clone(); both.extend(kn.clone()); both.sort();
            let expect: Vec<String> = if pos == "<" { keyed(&all.iter().filter(|r| r[&Arc::from("w") as &Arc<str>] != FieldValue::Null).cloned().collect::<Vec<_>>()) } else { all_k.clone() };
            if both != expect { failures.insert(format!("filter {pos} and its negation {neg} with a tag argument do not partition the rows in scope [{scope}]")); }
            // renaming the tag changes nothing
            if let Some(rr) = rows(&q(pos).replace(r#"name: "t""#, r#"name: "renamed""#).replace("%t", "%renamed"), &[], &mut failures) {
                if rr != rp { failures.insert(format!("renaming a tag changed the rows ({pos}, scope [{scope}])")); }
            }
            n += 1;
        } }
    }
    // list membership and null tests
    for (pos, neg, prop, arg) in [("contains", "not_contains", "vowelsInName", FieldValue::String(Arc::from("e"))), ("contains", "not_contains", "vowelsInName", FieldValue::String(Arc::from("u"))),
                                  ("is_null", "is_not_null", "name", FieldValue::Null), ("is_null", "is_not_null", "vowelsInName", FieldValue::Null)] {
        vk::grid_case(format_args!("op={} prop={}", pos, prop));
        let base = format!(r#"{{ Number(min: 0, max: 14) {{ value @output(name: "v") successor {{ value @output(name: "w") }} }} }}"#);
        let q = |op: &str| if arg == FieldValue::Null { format!(r#"{{ Number(min: 0, max: 14) {{ value @output(name: "v") successor {{ value @output(name: "w") {prop} @filter(op: "{op}") }} }} }}"#) }
                           else { format!(r#"{{ Number(min: 0, max: 14) {{ value @output(name: "v") successor {{ value @output(name: "w") {prop} @filter(op: "{op}", value: ["$x"]) }} }} }}"#) };
        let args: Vec<(&str, FieldValue)> = if arg == FieldValue::Null { vec![] } else { vec![("x", arg.clone())] };
        if let (Some(all), Some(rp), Some(rn)) = (rows(&base, &[], &mut failures), rows(&q(pos), &args, &mut failures), rows(&q(neg), &args, &mut failures)) {
            let mut both = keyed(&rp); both.extend(keyed(&rn)); both.sort();
            if both != keyed(&all) { failures.insert(format!("filter {pos} and its negation {neg} on {prop} do not partition the rows")); }
        }
        n += 1;
    }
    // `=` and one_of with a one-element list agree for every argument, null included, on a nullable property with null values
    for x in [FieldValue::Null, FieldValue::String(Arc::from("twenty")), FieldValue::String(Arc::from("two")), FieldValue::String(Arc::from("nope"))] {
        for scope in ["", "successor"] {
            vk::grid_case(format_args!("= vs one_of with {:?} in scope [{}]", x, scope));
            let (open, close) = if scope.is_empty() { (String::new(), "") } else { (format!("{scope} {{"), "}") };
            let q = |op: &str, var: &str| format!(r#"{{ Number(min: 17, max: 24) {{ value @output(name: "v") {open} name @output(name: "w") @filter(op: "{op}", value: ["${var}"]) {close} }} }}"#);
            let single = FieldValue::List(vec![x.clone()].into());
            if let (Some(a), Some(b)) = (rows(&q("=", "x"), &[("x", x.clone())], &mut failures), rows(&q("one_of", "l"), &[("l", single.clone())], &mut failures)) {
                if a != b { failures.insert(format!("`=` {x:?} and one_of [{x:?}] disagree in scope [{scope}]")); }
            }
            if let (Some(a), Some(b)) = (rows(&q("!=", "x"), &[("x", x.clone())], &mut failures), rows(&q("not_one_of", "l"), &[("l", single)], &mut failures)) {
                if a != b { failures.insert(format!("`!=` {x:?} and not_one_of [{x:?}] disagree in scope [{scope}]")); }
            }
            n += 1;
        }
    }
    // filters on a fold's count: adding one never adds rows, whatever the other one is (folds with and without outputs of their own)
    let count_filters: Vec<(String, FieldValue)> = ["<", "<=", "=", "!=", ">", ">="].iter().flat_map(|op| (0..4i64).map(move |k| (op.to_string(), FieldValue::Int64(k))))
        .chain(["one_of", "not_one_of"].iter().flat_map(|op| [vec![0i64], vec![2], vec![1, 3], vec![0, 1, 2, 3]].into_iter().map(move |l| (op.to_string(), FieldValue::List(l.into_iter().map(FieldValue::Int64).collect::<Vec<_>>().into()))))).collect();
    for inner in ["", r#"{ value @output(name: "m") }"#] {
        let q = |filters: &str| format!(r#"{{ Number(min: 2, max: 8) {{ value @output(name: "v") multiple(max: 3) @fold @transform(op: "count") {filters} {inner} }} }}"#);
        let Some(all) = rows(&q(""), &[], &mut failures) else { continue; };
        let all_k = keyed(&all);
        for (op1, a1) in &count_filters {
            vk::grid_case(format_args!("count filter {} {:?} inner [{}]", op1, a1, inner));
            let f1 = format!(r#"@filter(op: "{op1}", value: ["$a"])"#);
            let Some(r1) = rows(&q(&f1), &[("a", a1.clone())], &mut failures) else { continue; };
            let k1 = keyed(&r1);
            if !included(&k1, &all_k) { failures.insert(format!("count filter {op1} {a1:?} added rows")); }
            for (op2, a2) in &count_filters {
                let f2 = format!(r#"@filter(op: "{op2}", value: ["$b"])"#);
                for both in [format!("{f1} {f2}"), format!("{f2} {f1}")] {
                    if let Some(r12) = rows(&q(&both), &[("a", a1.clone()), ("b", a2.clone())], &mut failures) {
                        if !included(&keyed(&r12), &k1) { failures.insert(format!("adding count filter {op2} {a2:?} to {op1} {a1:?} added rows (fold {})", if inner.is_empty() { "without outputs" } else { "with an output" })); }
                    }
                }
                n += 1;
            }
        }
    }
    // a parameterized edge behaves like the equivalent filter: Number(min, max) is the range filter on value
    for (a, b) in [(0i64, 12i64), (3, 7), (5, 5), (7, 3), (0, 0), (11, 12)] {
        for inner in [r#"value @output(name: "v")"#, r#"value @output(name: "v") successor { value @output(name: "w") }"#, r#"value @output(name: "v") multiple(max: 2) @fold { value @output(name: "w") }"#, r#"... on Composite { value @output(name: "v") divisor { value @output(name: "w") } }"#] {
            vk::grid_case(format_args!("Number(min: {}, max: {}) vs filters: {}", a, b, inner));
            let with_parameters = format!(r#"{{ Number(min: {a}, max: {b}) {{ {inner} }} }}"#);
            let with_filters = format!(r#"{{ Number(min: 0, max: 12) {{ {} }} }}"#, inner.replacen(r#"value @output(name: "v")"#, r#"value @output(name: "v") @filter(op: ">=", value: ["$a"]) @filter(op: "<=", value: ["$b"])"#, 1));
            if let (Some(x), Some(y)) = (rows(&with_parameters, &[], &mut failures), rows(&with_filters, &[("a", FieldValue::Int64(a)), ("b", FieldValue::Int64(b))], &mut failures)) {
                if x != y { failures.insert(format!("Number(min: {a}, max: {b}) differs from the equivalent range filter: {inner}")); }
            }
            n += 1;
        }
    }
    vk::grid_done("c23_grid_query_transformations", n);
    if !failures.is_empty() { panic!("query transformation relations violated: {{{}}}", failures.into_iter().take(8).collect::<Vec<_>>().join("; ")); }
}
