// @target trustfall_core/src/frontend/mod.rs
// @module verif_c21
// @cfg all(test, verif_replay)
// @fn make_edge_parameters
// @fn trustfall_core/src/interpreter/execution.rs::expand_edge
// @fn trustfall_core/src/interpreter/execution.rs::perform_coercion
//
// (1) contract of make_edge_parameters, executed natively on real FieldDefinitions of the numbers
//     schema over an exhaustive grid of specified-argument maps;
// (2) the adapter-call contract of the statement, evaluated at every real adapter call while the
//     real engine executes the corpus (recording adapter). Bounded native stand-ins.
use super::*;
use crate::interpreter::execution::interpret_ir;
use crate::interpreter::{Adapter, AsVertex, ContextIterator, ContextOutcomeIterator, ResolveEdgeInfo, ResolveInfo, Typename, VertexIterator};
use crate::numbers_interpreter::{NumbersAdapter, NumbersVertex};
use crate::verif_corpus::{compile, corpus, schema};
use crate::verif_vk as vk;
use std::cell::RefCell;
use std::collections::BTreeSet;
use std::rc::Rc;

// @grid c21_grid_make_edge_parameters tier=quick bound="[+ seeded random accepted documents, VERIF_SEED] 3 edge definitions of the numbers schema (required / defaulted / nullable parameters); specified maps over {min, max, bogus} with values absent / null / Int64 / Uint64 / String"
// @ob make_edge_parameters is Ok(p) iff no required parameter is missing, every supplied value fits its declared type and no undeclared name is supplied; then keys(p) are exactly the declared names and each value is the supplied one, else the declared default, else null for a nullable parameter
pub(crate) fn c21_grid_make_edge_parameters() {
    let mut n = 0u64;
    let s = schema("numbers");
    // (owner type, edge, [(param, nullable, default)])
    let defs: [(&str, &str, Vec<(&str, bool, Option<FieldValue>)>); 3] = [
        ("RootSchemaQuery", "Number", vec![("min", false, Some(FieldValue::Int64(0))), ("max", false, None)]),
        ("RootSchemaQuery", "NumberImplicitNullDefault", vec![("min", true, None), ("max", false, None)]),
        ("Number", "multiple", vec![("max", false, None)]),
    ];
    let vals: [Option<FieldValue>; 5] = [None, Some(FieldValue::Null), Some(FieldValue::Int64(3)), Some(FieldValue::Uint64(7)), Some(FieldValue::String(Arc::from("x")))];
    for (owner, edge, params) in defs.iter() {
        let def = s.fields.get(&(Arc::from(*owner), Arc::from(*edge))).expect("edge definition");
        for vmin in vals.iter() { for vmax in vals.iter() { for vbogus in [None, Some(FieldValue::Int64(1))] {
            vk::grid_case(format_args!("{}.{} min={:?} max={:?} bogus={:?}", owner, edge, vmin, vmax, vbogus));
            let mut spec: BTreeMap<Arc<str>, FieldValue> = BTreeMap::new();
            if let Some(v) = vmin { spec.insert(Arc::from("min"), v.clone()); }
            if let Some(v) = vmax { spec.insert(Arc::from("max"), v.clone()); }
            if let Some(v) = &vbogus { spec.insert(Arc::from("bogus"), v.clone()); }
            let mut expect_ok = true;
            let mut expected: BTreeMap<Arc<str>, FieldValue> = BTreeMap::new();
            for (pname, nullable, default) in params.iter() {
                match spec.get(*pname) {
                    Some(v) => {
                        let fits = match v { FieldValue::Null => *nullable, FieldValue::Int64(_) | FieldValue::Uint64(_) => true, _ => false };
                        if !fits { expect_ok = false; }
                        expected.insert(Arc::from(*pname), v.clone());
                    }
                    None => match (default, nullable) {
                        (Some(d), _) => { expected.insert(Arc::from(*pname), d.clone()); }
                        (None, true) => { expected.insert(Arc::from(*pname), FieldValue::Null); }
                        (None, false) => { expect_ok = false; }
                    },
                }
            }
            if spec.keys().any(|k| !params.iter().any(|(p, _, _)| *p == k.as_ref())) { expect_ok = false; }
            match make_edge_parameters(def, &spec) {
                Ok(p) => {
                    assert!(expect_ok, "edge parameters accepted although a required one is missing, ill-typed or undeclared");
                    assert!(*p.contents == expected, "edge parameters differ from: supplied value, else declared default, else null");
                }
                Err(_) => assert!(!expect_ok, "well-formed edge parameters rejected"),
            }
            n += 1;
        } } }
    }
    vk::grid_done("c21_grid_make_edge_parameters", n);
}

struct Recorder { inner: NumbersAdapter, bad: Rc<RefCell<BTreeSet<String>>>, calls: Rc<RefCell<u64>> }
impl Recorder {
    fn check_params(&self, owner: &str, edge: &str, parameters: &EdgeParameters) {
        let s = self.inner.schema();
        let Some(def) = s.fields.get(&(Arc::from(owner), Arc::from(edge))) else { self.bad.borrow_mut().insert(format!("edge {owner}.{edge} is not defined in the schema")); return; };
        if !s.vertex_types.contains_key(get_underlying_named_type(&def.ty.node).as_ref()) { self.bad.borrow_mut().insert(format!("{owner}.{edge} is not an edge")); }
        let declared: BTreeSet<String> = def.arguments.iter().map(|a| a.node.name.node.to_string()).collect();
        let got: BTreeSet<String> = parameters.iter().map(|(k, _)| k.to_string()).collect();
        if declared != got { self.bad.borrow_mut().insert(format!("{owner}.{edge}: parameters {got:?} differ from the declared {declared:?}")); }
        for a in &def.arguments {
            if let Some(v) = parameters.get(a.node.name.node.as_ref()) {
                if !Type::from_type(&a.node.ty.node).is_valid_value(v) { self.bad.borrow_mut().insert(format!("{owner}.{edge}: parameter {} = {v:?} does not fit {}", a.node.name.node, a.node.ty.node)); }
            }
        }
    }
    fn check_vertices<'a, V: AsVertex<NumbersVertex> + 'a>(&self, contexts: ContextIterator<'a, V>, type_name: &Arc<str>, what: &'static str) -> ContextIterator<'a, V> {
        let bad = self.bad.clone();
        let schema = self.inner.schema().clone();
        let type_name = type_name.clone();
        Box::new(contexts.map(move |ctx| {
            if let Some(v) = ctx.active_vertex::<NumbersVertex>() {
                if !schema.is_named_type_subtype(&type_name, v.typename()) { bad.borrow_mut().insert(format!("{what}: active vertex of type {} is not an instance of {}", v.typename(), type_name)); }
            }
            ctx
        }))
    }
}
impl<'a> Adapter<'a> for Recorder {
    type Vertex = NumbersVertex;
    fn resolve_starting_vertices(&self, edge_name: &Arc<str>, parameters: &EdgeParameters, resolve_info: &ResolveInfo) -> VertexIterator<'a, Self::Vertex> {
        *self.calls.borrow_mut() += 1;
        self.check_params(self.inner.schema().query_type_name(), edge_name, parameters);
        self.inner.resolve_starting_vertices(edge_name, parameters, resolve_info)
    }
    fn resolve_property<V: AsVertex<Self::Vertex> + 'a>(&self, contexts: ContextIterator<'a, V>, type_name: &Arc<str>, property_name: &Arc<str>, resolve_info: &ResolveInfo) -> ContextOutcomeIterator<'a, V, FieldValue> {
        *self.calls.borrow_mut() += 1;
        let s = self.inner.schema();
        if !s.vertex_types.contains_key(type_name) { self.bad.borrow_mut().insert(format!("resolve_property: type {type_name} is not defined in the schema")); }
        if property_name.as_ref() != "__typename" {
            match s.fields.get(&(type_name.clone(), property_name.clone())) {
                None => { self.bad.borrow_mut().insert(format!("resolve_property: {type_name}.{property_name} is not defined")); }
                Some(def) => { if s.vertex_types.contains_key(get_underlying_named_type(&def.ty.node).as_ref()) { self.bad.borrow_mut().insert(format!("resolve_property: {type_name}.{property_name} is an edge")); } }
            }
        }
        let contexts = self.check_vertices(contexts, type_name, "resolve_property");
        self.inner.resolve_property(contexts, type_name, property_name, resolve_info)
    }
    fn resolve_neighbors<V: AsVertex<Self::Vertex> + 'a>(&self, contexts: ContextIterator<'a, V>, type_name: &Arc<str>, edge_name: &Arc<str>, parameters: &EdgeParameters, resolve_info: &ResolveEdgeInfo) -> ContextOutcomeIterator<'a, V, VertexIterator<'a, Self::Vertex>> {
        *self.calls.borrow_mut() += 1;
        if !self.inner.schema().vertex_types.contains_key(type_name) { self.bad.borrow_mut().insert(format!("resolve_neighbors: type {type_name} is not defined in the schema")); }
        self.check_params(type_name, edge_name, parameters);
        let contexts = self.check_vertices(contexts, type_name, "resolve_neighbors");
        self.inner.resolve_neighbors(contexts, type_name, edge_name, parameters, resolve_info)
    }
    fn resolve_coercion<V: AsVertex<Self::Vertex> + 'a>(&self, contexts: ContextIterator<'a, V>, type_name: &Arc<str>, coerce_to_type: &Arc<str>, resolve_info: &ResolveInfo) -> ContextOutcomeIterator<'a, V, bool> {
        *self.calls.borrow_mut() += 1;
        let s = self.inner.schema();
        if !s.vertex_types.contains_key(type_name) || !s.vertex_types.contains_key(coerce_to_type) { self.bad.borrow_mut().insert(format!("resolve_coercion: {type_name} -> {coerce_to_type}: undefined type")); }
        else if !s.is_named_type_subtype(type_name, coerce_to_type) { self.bad.borrow_mut().insert(format!("resolve_coercion: {coerce_to_type} is not a subtype of {type_name}")); }
        let contexts = self.check_vertices(contexts, type_name, "resolve_coercion");
        self.inner.resolve_coercion(contexts, type_name, coerce_to_type, resolve_info)
    }
}

// @grid c21_grid_adapter_call_contract tier=quick bound="[+ seeded random accepted documents, VERIF_SEED] every numbers-schema query of the corpus whose arguments are accepted, executed on the repository's numbers adapter"
// @ob every adapter call names a type defined in the schema, a property (or __typename) / an edge defined on that type, a coercion target that is a subtype of the named type, and edge parameters whose keys are exactly the declared parameters with values of the declared types; every non-null active vertex passed is an instance of the named type
pub(crate) fn c21_grid_adapter_call_contract() {
    let mut n = 0u64;
    let mut failures = BTreeSet::new();
    let mut total_calls = 0u64;
    for case in crate::verif_corpus::corpus_with_random(200, 21) {
        if case.schema_name != "numbers" { continue; }
        vk::grid_case(format_args!("{}", case.name));
        let Some(iq) = compile(&case) else { continue; };
        let bad = Rc::new(RefCell::new(BTreeSet::new()));
        let calls = Rc::new(RefCell::new(0u64));
        let adapter = Arc::new(Recorder { inner: NumbersAdapter::new(), bad: bad.clone(), calls: calls.clone() });
        let Ok(rows) = interpret_ir(adapter, iq, Arc::new(case.arguments.clone())) else { continue; };
        let _ = rows.take(300).count();
        total_calls += *calls.borrow();
        for b in bad.borrow().iter() { failures.insert(format!("{}: {}", case.name, b)); }
        n += 1;
    }
    assert!(total_calls > 100, "vacuous: almost no adapter calls were observed");
    vk::grid_done("c21_grid_adapter_call_contract", n);
    if !failures.is_empty() { panic!("adapter-call contract failures: {{{}}}", failures.into_iter().take(10).collect::<Vec<_>>().join("; ")); }
}
