// @target trustfall_core/src/lib.rs
// @module verif_c25
// @cfg all(test, verif_replay)
// @fn trustfall_core/src/interpreter/helpers/correctness.rs::check_adapter_invariants
// @fn trustfall_core/src/interpreter/helpers/correctness.rs::check_properties_are_implemented
// @fn trustfall_core/src/interpreter/helpers/correctness.rs::check_edges_are_implemented
// @fn trustfall_core/src/interpreter/helpers/correctness.rs::check_type_coercions_are_implemented
//
// Contract of check_adapter_invariants, evaluated natively by fault enumeration: it returns normally for
// the contract-abiding numbers adapter and panics for the same adapter with ONE documented violation
// injected at ONE resolver / type / field - for every property, edge and coercion pair of the schema and
// every violation kind, each at several positions of the context stream. Two data sources: the repository's
// numbers adapter, and a schema-driven adapter over a second schema (interfaces, edges whose parameters all
// have explicit or implicit defaults) that relies on what the contract promises it (every declared edge
// parameter supplied by name with a value valid for its type). Bounded stand-in (two schemas).
use crate::interpreter::helpers::{check_adapter_invariants, resolve_coercion_with, resolve_neighbors_with, resolve_property_with};
use crate::interpreter::{Adapter, AsVertex, ContextIterator, ContextOutcomeIterator, ResolveEdgeInfo, ResolveInfo, VertexIterator};
use crate::ir::{EdgeParameters, FieldValue, Type};
use crate::numbers_interpreter::{NumbersAdapter, NumbersVertex};
use crate::schema::Schema;
use crate::verif_vk as vk;
use std::collections::BTreeSet;
use std::fmt::Debug;
use std::sync::atomic::{AtomicBool, Ordering};
use std::sync::Arc;

/// which of the contexts without an active vertex gets the forbidden answer
#[derive(Clone, Copy, PartialEq, Debug)]
enum Which { All, First, Middle, Last }
#[derive(Clone, Copy, PartialEq, Debug)]
enum Order { SwapFirstTwo, SwapLastTwo, Reverse, RotateLeft }
#[derive(Clone, Copy, PartialEq, Debug)]
enum Fault { None, Reorder(Order), NonNullForMissingVertex(Which) }
#[derive(Clone, PartialEq, Debug)]
enum Site { Property(String, String), Edge(String, String), Coercion(String, String) }

const FAULTS: [Fault; 8] = [Fault::Reorder(Order::SwapFirstTwo), Fault::Reorder(Order::SwapLastTwo), Fault::Reorder(Order::Reverse), Fault::Reorder(Order::RotateLeft),
    Fault::NonNullForMissingVertex(Which::All), Fault::NonNullForMissingVertex(Which::First), Fault::NonNullForMissingVertex(Which::Middle), Fault::NonNullForMissingVertex(Which::Last)];

/// `injected` records whether the fault actually changed anything the adapter returned (a "reordering" of
/// fewer than two items, or no context without an active vertex, is no violation and must not be demanded).
#[derive(Clone)]
struct Faulty<A: Clone, Vx: Clone> { inner: A, site: Site, fault: Fault, some_vertex: Vx, injected: Arc<AtomicBool> }

fn reorder<T>(mut v: Vec<T>, how: Order, injected: &AtomicBool) -> Vec<T> {
    let n = v.len();
    if n >= 2 {
        match how { Order::SwapFirstTwo => v.swap(0, 1), Order::SwapLastTwo => v.swap(n - 2, n - 1), Order::Reverse => v.reverse(), Order::RotateLeft => v.rotate_left(1) }
        injected.store(true, Ordering::SeqCst);
    }
    v
}
/// indices (among `missing`) that receive the forbidden answer
fn chosen(missing: &[usize], which: Which) -> Vec<usize> {
    if missing.is_empty() { return vec![]; }
    match which { Which::All => missing.to_vec(), Which::First => vec![missing[0]], Which::Last => vec![missing[missing.len() - 1]], Which::Middle => vec![missing[missing.len() / 2]] }
}

impl<'a, A: Adapter<'a> + Clone + 'a> Adapter<'a> for Faulty<A, A::Vertex> where A::Vertex: Clone + Debug + 'a {
    type Vertex = A::Vertex;
    fn resolve_starting_vertices(&self, edge_name: &Arc<str>, parameters: &EdgeParameters, resolve_info: &ResolveInfo) -> VertexIterator<'a, Self::Vertex> {
        self.inner.resolve_starting_vertices(edge_name, parameters, resolve_info)
    }
    fn resolve_property<V: AsVertex<Self::Vertex> + 'a>(&self, contexts: ContextIterator<'a, V>, type_name: &Arc<str>, property_name: &Arc<str>, resolve_info: &ResolveInfo) -> ContextOutcomeIterator<'a, V, FieldValue> {
        let hit = self.site == Site::Property(type_name.to_string(), property_name.to_string());
        let out = self.inner.resolve_property(contexts, type_name, property_name, resolve_info);
        match (hit, self.fault) {
            (true, Fault::Reorder(how)) => Box::new(reorder(out.collect::<Vec<_>>(), how, &self.injected).into_iter()),
            (true, Fault::NonNullForMissingVertex(which)) => {
                let mut all: Vec<_> = out.collect();
                let missing: Vec<usize> = all.iter().enumerate().filter(|(_, (c, _))| c.active_vertex::<A::Vertex>().is_none()).map(|(i, _)| i).collect();
                for i in chosen(&missing, which) { all[i].1 = FieldValue::Int64(1); self.injected.store(true, Ordering::SeqCst); }
                Box::new(all.into_iter())
            }
            _ => out,
        }
    }
    fn resolve_neighbors<V: AsVertex<Self::Vertex> + 'a>(&self, contexts: ContextIterator<'a, V>, type_name: &Arc<str>, edge_name: &Arc<str>, parameters: &EdgeParameters, resolve_info: &ResolveEdgeInfo) -> ContextOutcomeIterator<'a, V, VertexIterator<'a, Self::Vertex>> {
        let hit = self.site == Site::Edge(type_name.to_string(), edge_name.to_string());
        let out = self.inner.resolve_neighbors(contexts, type_name, edge_name, parameters, resolve_info);
        match (hit, self.fault) {
            (true, Fault::Reorder(how)) => Box::new(reorder(out.collect::<Vec<_>>(), how, &self.injected).into_iter()),
            (true, Fault::NonNullForMissingVertex(which)) => {
                let mut all: Vec<_> = out.collect();
                let missing: Vec<usize> = all.iter().enumerate().filter(|(_, (c, _))| c.active_vertex::<A::Vertex>().is_none()).map(|(i, _)| i).collect();
                // any neighbour at all for a context without an active vertex
                for i in chosen(&missing, which) { all[i].1 = Box::new(std::iter::once(self.some_vertex.clone())); self.injected.store(true, Ordering::SeqCst); }
                Box::new(all.into_iter())
            }
            _ => out,
        }
    }
    fn resolve_coercion<V: AsVertex<Self::Vertex> + 'a>(&self, contexts: ContextIterator<'a, V>, type_name: &Arc<str>, coerce_to_type: &Arc<str>, resolve_info: &ResolveInfo) -> ContextOutcomeIterator<'a, V, bool> {
        let hit = self.site == Site::Coercion(type_name.to_string(), coerce_to_type.to_string());
        let out = self.inner.resolve_coercion(contexts, type_name, coerce_to_type, resolve_info);
        match (hit, self.fault) {
            (true, Fault::Reorder(how)) => Box::new(reorder(out.collect::<Vec<_>>(), how, &self.injected).into_iter()),
            (true, Fault::NonNullForMissingVertex(which)) => {
                let mut all: Vec<_> = out.collect();
                let missing: Vec<usize> = all.iter().enumerate().filter(|(_, (c, _))| c.active_vertex::<A::Vertex>().is_none()).map(|(i, _)| i).collect();
                for i in chosen(&missing, which) { all[i].1 = true; self.injected.store(true, Ordering::SeqCst); }
                Box::new(all.into_iter())
            }
            _ => out,
        }
    }
}

fn numbers_zero(inner: &NumbersAdapter) -> NumbersVertex {
    let q = crate::frontend::parse(inner.schema(), "{ Zero { value @output } }").expect("valid");
    let ri = ResolveInfo::new(crate::interpreter::InterpretedQuery::from_query_and_arguments(q, Arc::new(Default::default())).expect("ok"), crate::ir::Vid::new(std::num::NonZeroUsize::new(1).unwrap()), false);
    inner.resolve_starting_vertices(&Arc::from("Zero"), &EdgeParameters::default(), &ri).next().expect("zero exists")
}

// ---- a schema-driven, contract-abiding adapter that relies on what the contract promises it ----
const SECOND_SCHEMA: &str = r#"schema { query: RootSchemaQuery }
directive @filter(op: String!, value: [String!]) repeatable on FIELD | INLINE_FRAGMENT
directive @tag(name: String) repeatable on FIELD
directive @output(name: String) repeatable on FIELD
directive @optional on FIELD
directive @recurse(depth: Int!) on FIELD
directive @fold on FIELD
directive @transform(op: String!) repeatable on FIELD
type RootSchemaQuery { Item(limit: Int = 2): [Item!]  Special: Special }
interface Item { name: String  size: Int!  tags: [String!]!  related(limit: Int! = 3, prefix: String): [Item!]  parent(kind: String = "x", depth: Int): Item  plain: Item  byIds(ids: [Int!], names: [[String]]): [Item!] }
type Plain implements Item { name: String  size: Int!  tags: [String!]!  related(limit: Int! = 3, prefix: String): [Item!]  parent(kind: String = "x", depth: Int): Item  plain: Item  byIds(ids: [Int!], names: [[String]]): [Item!] }
type Special implements Item { name: String  size: Int!  tags: [String!]!  related(limit: Int! = 3, prefix: String): [Item!]  parent(kind: String = "x", depth: Int): Special  plain: Item  byIds(ids: [Int!], names: [[String]]): [Item!]  extra: Float  flags(only: [Boolean!] = [true], ratio: Float = 1.5): [Special!]! }
"#;
#[derive(Clone, Debug)]
struct SchemaDriven { schema: Arc<Schema> }
type GV = (Arc<str>, i64);
impl SchemaDriven {
    fn concrete(&self, ty: &str) -> Vec<Arc<str>> {
        let mut v: Vec<Arc<str>> = self.schema.subtypes(ty).expect("type exists").filter(|t| matches!(self.schema.vertex_types[*t].kind, async_graphql_parser::types::TypeKind::Object(_))).map(|t| Arc::from(t)).collect();
        v.sort(); v
    }
    fn target_of(&self, ty: &str, field: &str) -> String {
        let def = &self.schema.fields[&(Arc::from(ty), Arc::from(field))];
        let mut b = &def.ty.node.base;
        while let async_graphql_parser::types::BaseType::List(inner) = b { b = &inner.base; }
        let async_graphql_parser::types::BaseType::Named(nm) = b else { unreachable!() };
        nm.to_string()
    }
    /// what the contract promises: every declared parameter is supplied, by name, with a value valid for its declared type
    fn rely_on_parameters(&self, ty: &str, edge: &str, parameters: &EdgeParameters) {
        let def = &self.schema.fields[&(Arc::from(ty), Arc::from(edge))];
        for arg in &def.arguments {
            let name = arg.node.name.node.as_str();
            let value = parameters.get(name).unwrap_or_else(|| panic!("edge parameter {name} of {ty}.{edge} was not supplied"));
            let declared = Type::from_type(&arg.node.ty.node);
            assert!(declared.is_valid_value(value), "edge parameter {name} of {ty}.{edge} has value {value:?}, not valid for {declared}");
        }
        assert_eq!(def.arguments.len(), parameters.iter().count(), "unexpected extra parameters for {ty}.{edge}");
    }
}
impl<'a> Adapter<'a> for SchemaDriven {
    type Vertex = GV;
    fn resolve_starting_vertices(&self, edge_name: &Arc<str>, parameters: &EdgeParameters, _resolve_info: &ResolveInfo) -> VertexIterator<'a, Self::Vertex> {
        let root = self.schema.query_type_name().to_string();
        self.rely_on_parameters(&root, edge_name, parameters);
        let target = self.target_of(&root, edge_name);
        Box::new(self.concrete(&target).into_iter().flat_map(|t| [(t.clone(), 1i64), (t, 2i64)]))
    }
    fn resolve_property<V: AsVertex<Self::Vertex> + 'a>(&self, contexts: ContextIterator<'a, V>, type_name: &Arc<str>, property_name: &Arc<str>, _resolve_info: &ResolveInfo) -> ContextOutcomeIterator<'a, V, FieldValue> {
        if property_name.as_ref() == "__typename" { return resolve_property_with(contexts, |v: &GV| FieldValue::String(v.0.clone())); }
        let declared = Type::from_type(&self.schema.fields[&(type_name.clone(), property_name.clone())].ty.node);
        resolve_property_with(contexts, move |v: &GV| {
            if declared.is_list() { FieldValue::List(Vec::new().into()) } else {
                match declared.base_type() { "Int" => FieldValue::Int64(v.1), "String" => FieldValue::String(Arc::from(format!("{}{}", v.0, v.1))), "Float" => FieldValue::Float64(1.5), "Boolean" => FieldValue::Boolean(true), other => unreachable!("{other}") }
            }
        })
    }
    fn resolve_neighbors<V: AsVertex<Self::Vertex> + 'a>(&self, contexts: ContextIterator<'a, V>, type_name: &Arc<str>, edge_name: &Arc<str>, parameters: &EdgeParameters, _resolve_info: &ResolveEdgeInfo) -> ContextOutcomeIterator<'a, V, VertexIterator<'a, Self::Vertex>> {
        self.rely_on_parameters(type_name, edge_name, parameters);
        let targets = self.concrete(&self.target_of(type_name, edge_name));
        resolve_neighbors_with(contexts, move |v: &GV| { let id = v.1; Box::new(targets.clone().into_iter().map(move |t| (t, id + 1))) })
    }
    fn resolve_coercion<V: AsVertex<Self::Vertex> + 'a>(&self, contexts: ContextIterator<'a, V>, _type_name: &Arc<str>, coerce_to_type: &Arc<str>, _resolve_info: &ResolveInfo) -> ContextOutcomeIterator<'a, V, bool> {
        let ok: BTreeSet<Arc<str>> = self.concrete(coerce_to_type).into_iter().collect();
        resolve_coercion_with(contexts, move |v: &GV| ok.contains(&v.0))
    }
}

fn sites_of(schema: &Schema) -> Vec<Site> {
    let root = schema.query_type_name().to_string();
    let mut sites: Vec<Site> = Vec::new();
    let mut keys: Vec<(String, String)> = schema.fields.keys().map(|(t, f)| (t.to_string(), f.to_string())).filter(|(t, _)| *t != root).collect();
    keys.sort();
    for (t, f) in keys {
        let def = &schema.fields[&(Arc::from(t.as_str()), Arc::from(f.as_str()))];
        let mut base_ty = &def.ty.node.base;
        while let async_graphql_parser::types::BaseType::List(inner) = base_ty { base_ty = &inner.base; }
        let async_graphql_parser::types::BaseType::Named(nm) = base_ty else { unreachable!() };
        if schema.vertex_types.contains_key(nm.as_str()) { sites.push(Site::Edge(t, f)); } else { sites.push(Site::Property(t, f)); }
    }
    let mut types: Vec<String> = schema.vertex_types.keys().map(|k| k.to_string()).filter(|t| *t != root).collect();
    types.sort();
    for t in &types { sites.push(Site::Property(t.clone(), "__typename".into())); }
    for t in &types { if let Some(subs) = schema.subtypes(t) { let mut subs: Vec<String> = subs.map(|s| s.to_string()).filter(|s| s != t).collect(); subs.sort(); for s in subs { sites.push(Site::Coercion(t.clone(), s)); } } }
    sites
}

fn enumerate_faults<'a, A: Adapter<'a> + Clone + 'a>(label: &str, schema: &Schema, base: A, some_vertex: A::Vertex, n: &mut u64, failures: &mut BTreeSet<String>) where A::Vertex: Clone + Debug + 'a {
    let run = |site: Site, fault: Fault| -> (bool, bool) {
        let injected = Arc::new(AtomicBool::new(false));
        let adapter = Faulty { inner: base.clone(), site, fault, some_vertex: some_vertex.clone(), injected: injected.clone() };
        let panicked = std::panic::catch_unwind(std::panic::AssertUnwindSafe(|| check_adapter_invariants(schema, adapter))).is_err();
        (panicked, injected.load(Ordering::SeqCst))
    };
    vk::grid_case(format_args!("{} no fault", label));
    if run(Site::Property("-".into(), "-".into()), Fault::None).0 { failures.insert(format!("the checker rejects the contract-abiding {label} adapter")); }
    *n += 1;
    for site in sites_of(schema) {
        let where_ = match &site { Site::Property(t, f) => format!("property {t}.{f}"), Site::Edge(t, f) => format!("edge {t}.{f}"), Site::Coercion(t, s) => format!("coercion {t}->{s}") };
        let (mut missed, mut exercised) = (Vec::new(), false);
        for fault in FAULTS {
            vk::grid_case(format_args!("{} {:?} {:?}", label, site, fault));
            let (panicked, injected) = run(site.clone(), fault);
            exercised |= injected;
            if !panicked { missed.push(format!("{fault:?}")); }
            *n += 1;
        }
        // `never exercised`: the checker gave this resolver nothing any fault could act on (it does not check the site at all)
        if !missed.is_empty() { failures.insert(format!("{label} {where_}: {} of {} violations not caught{} ({})", missed.len(), FAULTS.len(), if exercised { "" } else { ", site never exercised" }, missed.join(" "))); }
    }
}

// @grid c25_grid_fault_enumeration tier=quick bound="numbers schema and a second schema (interface with two implementers, edges whose parameters all have explicit or implicit defaults, list/float/boolean parameters): every (type, property), (type, edge) and (type, subtype) coercion pair x {contexts reordered: first two swapped, last two swapped, reversed, rotated; a non-null property / a neighbour / a true coercion for a context without active vertex: at all, only the first, only a middle, only the last such context}"
// @ob check_adapter_invariants passes for the contract-abiding adapter (including one that relies on every declared edge parameter being supplied by name with a valid value) and fails for that adapter with any single documented violation injected at any single resolver / type / field
pub(crate) fn c25_grid_fault_enumeration() {
    let mut n = 0u64;
    let mut failures = BTreeSet::new();
    let numbers = NumbersAdapter::new();
    let zero = numbers_zero(&numbers);
    enumerate_faults("numbers", &numbers.schema().clone(), numbers, zero, &mut n, &mut failures);
    let second = Arc::new(Schema::parse(SECOND_SCHEMA).expect("harness schema is valid"));
    enumerate_faults("second", &second.clone(), SchemaDriven { schema: second }, (Arc::from("Plain"), 7), &mut n, &mut failures);
    vk::grid_done("c25_grid_fault_enumeration", n);
    if !failures.is_empty() { panic!("adapter invariant checker contract failures: {{{}}}", failures.into_iter().collect::<Vec<_>>().join("; ")); }
}
