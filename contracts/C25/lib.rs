// @target trustfall_core/src/lib.rs
// @module verif_c25
// @cfg all(test, verif_replay)
// @fn trustfall_core/src/interpreter/helpers/correctness.rs::check_adapter_invariants
// @fn trustfall_core/src/interpreter/helpers/correctness.rs::check_properties_are_implemented
// @fn trustfall_core/src/interpreter/helpers/correctness.rs::check_edges_are_implemented
// @fn trustfall_core/src/interpreter/helpers/correctness.rs::check_type_coercions_are_implemented
//
// Contract of check_adapter_invariants, evaluated natively by fault enumeration: it returns normally for
// the contract-abiding numbers adapter and panics for the same adapter with ONE documented violation
// injected at ONE resolver / type / field - for every property, edge and coercion pair of the schema and
// every violation kind. Bounded stand-in (one schema).
use crate::interpreter::helpers::check_adapter_invariants;
use crate::interpreter::{Adapter, AsVertex, ContextIterator, ContextOutcomeIterator, DataContext, ResolveEdgeInfo, ResolveInfo, VertexIterator};
use crate::ir::{EdgeParameters, FieldValue};
use crate::numbers_interpreter::{NumbersAdapter, NumbersVertex};
use crate::verif_vk as vk;
use std::collections::BTreeSet;
use std::sync::Arc;

#[derive(Clone, Copy, PartialEq, Debug)]
enum Fault { None, Reorder, NonNullForMissingVertex }
#[derive(Clone, PartialEq, Debug)]
enum Site { Property(String, String), Edge(String, String), Coercion(String, String) }

#[derive(Clone)]
struct Faulty { inner: NumbersAdapter, site: Site, fault: Fault }

fn reorder<T>(mut v: Vec<T>) -> Vec<T> { if v.len() >= 2 { v.swap(0, 1); } v }

impl<'a> Adapter<'a> for Faulty {
    type Vertex = NumbersVertex;
    fn resolve_starting_vertices(&self, edge_name: &Arc<str>, parameters: &EdgeParameters, resolve_info: &ResolveInfo) -> VertexIterator<'a, Self::Vertex> {
        self.inner.resolve_starting_vertices(edge_name, parameters, resolve_info)
    }
    fn resolve_property<V: AsVertex<Self::Vertex> + 'a>(&self, contexts: ContextIterator<'a, V>, type_name: &Arc<str>, property_name: &Arc<str>, resolve_info: &ResolveInfo) -> ContextOutcomeIterator<'a, V, FieldValue> {
        let hit = self.site == Site::Property(type_name.to_string(), property_name.to_string());
        let out = self.inner.resolve_property(contexts, type_name, property_name, resolve_info);
        match (hit, self.fault) {
            (true, Fault::Reorder) => Box::new(reorder(out.collect::<Vec<_>>()).into_iter()),
            (true, Fault::NonNullForMissingVertex) => Box::new(out.map(|(c, v)| { let missing = c.active_vertex::<NumbersVertex>().is_none(); (c, if missing { FieldValue::Int64(1) } else { v }) })),
            _ => out,
        }
    }
    fn resolve_neighbors<V: AsVertex<Self::Vertex> + 'a>(&self, contexts: ContextIterator<'a, V>, type_name: &Arc<str>, edge_name: &Arc<str>, parameters: &EdgeParameters, resolve_info: &ResolveEdgeInfo) -> ContextOutcomeIterator<'a, V, VertexIterator<'a, Self::Vertex>> {
        let hit = self.site == Site::Edge(type_name.to_string(), edge_name.to_string());
        let out = self.inner.resolve_neighbors(contexts, type_name, edge_name, parameters, resolve_info);
        let inner = self.inner.clone();
        match (hit, self.fault) {
            (true, Fault::Reorder) => Box::new(reorder(out.collect::<Vec<_>>()).into_iter()),
            (true, Fault::NonNullForMissingVertex) => Box::new(out.map(move |(c, ns)| {
                let missing = c.active_vertex::<NumbersVertex>().is_none();
                if missing {
                    let dummy: DataContext<NumbersVertex> = DataContext::new(None);
                    let _ = dummy;
                    let ri = None::<&ResolveInfo>;
                    let _ = ri;
                    // any neighbour at all for a context without an active vertex
                    let v: Vec<NumbersVertex> = vec![crate::numbers_interpreter::NumbersAdapter::new().schema().vertex_types.len()].into_iter().map(|_| inner_zero(&inner)).collect();
                    (c, Box::new(v.into_iter()) as VertexIterator<'a, NumbersVertex>)
                } else { (c, ns) }
            })),
            _ => out,
        }
    }
    fn resolve_coercion<V: AsVertex<Self::Vertex> + 'a>(&self, contexts: ContextIterator<'a, V>, type_name: &Arc<str>, coerce_to_type: &Arc<str>, resolve_info: &ResolveInfo) -> ContextOutcomeIterator<'a, V, bool> {
        let hit = self.site == Site::Coercion(type_name.to_string(), coerce_to_type.to_string());
        let out = self.inner.resolve_coercion(contexts, type_name, coerce_to_type, resolve_info);
        match (hit, self.fault) {
            (true, Fault::Reorder) => Box::new(reorder(out.collect::<Vec<_>>()).into_iter()),
            (true, Fault::NonNullForMissingVertex) => Box::new(out.map(|(c, b)| { let missing = c.active_vertex::<NumbersVertex>().is_none(); (c, missing || b) })),
            _ => out,
        }
    }
}
fn inner_zero(inner: &NumbersAdapter) -> NumbersVertex {
    // the vertex for the number 0, obtained through the adapter's own entry point resolution is not needed:
    // a neighbour resolved from an existing vertex is enough
    let q = crate::frontend::parse(inner.schema(), "{ Zero { value @output } }").expect("valid");
    let ri = ResolveInfo::new(crate::interpreter::InterpretedQuery::from_query_and_arguments(q, Arc::new(Default::default())).expect("ok"), crate::ir::Vid::new(std::num::NonZeroUsize::new(1).unwrap()), false);
    inner.resolve_starting_vertices(&Arc::from("Zero"), &EdgeParameters::default(), &ri).next().expect("zero exists")
}

fn checker_panics(adapter: Faulty) -> bool {
    let schema = adapter.inner.schema().clone();
    std::panic::catch_unwind(std::panic::AssertUnwindSafe(move || check_adapter_invariants(&schema, adapter))).is_err()
}

// @grid c25_grid_fault_enumeration tier=quick bound="numbers schema: every (type, property), (type, edge) and (type, subtype) coercion pair x {reordered contexts, non-null property / a neighbour / true coercion for a context without active vertex}"
// @ob check_adapter_invariants passes for the contract-abiding adapter and fails for that adapter with any single documented violation injected at any single resolver / type / field
pub(crate) fn c25_grid_fault_enumeration() {
    let mut n = 0u64;
    let mut failures = BTreeSet::new();
    let base = NumbersAdapter::new();
    let schema = base.schema().clone();
    if checker_panics(Faulty { inner: base.clone(), site: Site::Property("-".into(), "-".into()), fault: Fault::None }) {
        failures.insert("the checker rejects the contract-abiding numbers adapter".to_string());
    }
    n += 1;
    let root = schema.query_type_name().to_string();
    let mut sites: Vec<Site> = Vec::new();
    let mut keys: Vec<(String, String)> = schema.fields.keys().map(|(t, f)| (t.to_string(), f.to_string())).filter(|(t, _)| *t != root).collect();
    keys.sort();
    for (t, f) in keys {
        let def = &schema.fields[&(Arc::from(t.as_str()), Arc::from(f.as_str()))];
        let mut base_ty = &def.ty.node.base;
        while let async_graphql_parser::types::BaseType::List(inner) = base_ty { base_ty = &inner.base; }
        let async_graphql_parser::types::BaseType::Named(nm) = base_ty else { unreachable!() };
        if schema.vertex_types.contains_key(nm.as_str()) { sites.push(Site::Edge(t, f)); } else { sites.push(Site::Property(t, f)); }
    }
    let mut types: Vec<String> = schema.vertex_types.keys().map(|k| k.to_string()).filter(|t| *t != root).collect();
    types.sort();
    for t in &types { sites.push(Site::Property(t.clone(), "__typename".into())); }
    for t in &types { if let Some(subs) = schema.subtypes(t) { let mut subs: Vec<String> = subs.map(|s| s.to_string()).filter(|s| s != t).collect(); subs.sort(); for s in subs { sites.push(Site::Coercion(t.clone(), s)); } } }
    for site in sites { for fault in [Fault::Reorder, Fault::NonNullForMissingVertex] {
        vk::grid_case(format_args!("{:?} {:?}", site, fault));
        if !checker_panics(Faulty { inner: base.clone(), site: site.clone(), fault }) {
            let where_ = match &site { Site::Property(t, f) => format!("property {t}.{f}"), Site::Edge(t, f) => format!("edge {t}.{f}"), Site::Coercion(t, s) => format!("coercion {t}->{s}") };
            failures.insert(format!("violation not caught: {fault:?} at {where_}"));
        }
        n += 1;
    } }
    vk::grid_done("c25_grid_fault_enumeration", n);
    if !failures.is_empty() { panic!("adapter invariant checker contract failures: {{{}}}", failures.into_iter().take(12).collect::<Vec<_>>().join("; ")); }
}
