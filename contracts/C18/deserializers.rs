// @target trustfall_core/src/serialization/deserializers.rs
// @module verif_c18
// @fn FieldValueDeserializer::deserialize_i8
// @fn FieldValueDeserializer::deserialize_i16
// @fn FieldValueDeserializer::deserialize_i32
// @fn FieldValueDeserializer::deserialize_u8
// @fn FieldValueDeserializer::deserialize_u16
// @fn FieldValueDeserializer::deserialize_u32
// @fn FieldValueDeserializer::deserialize_f32
// @fn FieldValueDeserializer::deserialize_any
// @fn FieldValueDeserializer::deserialize_option
// @fn FieldValueDeserializer::deserialize_tuple
// @fn QueryResultDeserializer::deserialize_any
// @fn QueryResultMapDeserializer::next_key_seed
use super::*;
use crate::verif_vk as vk;
use serde::Deserialize;

/// Contract (from the statement): decoding an integer field value into an integer target yields
/// exactly the value when it is representable in the target, and an error - never a wrapped or
/// truncated number - when it is not.  Runs serde's real primitive visitors.
// The text of the error message is not part of the property: building it runs core::fmt, which
// dominates CBMC's cost. `core::fmt::write` is replaced by a no-op, so error messages come out empty but errors stay errors.
pub(crate) fn stub_fmt_write(_out: &mut dyn std::fmt::Write, _args: std::fmt::Arguments<'_>) -> std::fmt::Result {
    Ok(())
}

pub(crate) fn stub_fmt_format(_args: std::fmt::Arguments<'_>) -> String {
    String::new()
}

fn int_contract<T: serde::de::DeserializeOwned>(to_i128: fn(T) -> i128, min: i128, max: i128) {
    if vk::any_bool() {
        let x = vk::any_i64();
        let fits = min <= x as i128 && x as i128 <= max;
        verif_cover!(fits, "signed source fits");
        match T::deserialize(FieldValue::Int64(x).into_deserializer()) {
            Ok(t) => assert!(fits && to_i128(t) == x as i128, "Int64 decodes to exactly its value, only when representable"),
            Err(e) => { assert!(!fits, "Int64 that fits must decode"); core::mem::forget(e); }
        }
    } else {
        let y = vk::any_u64();
        let fits = y as i128 <= max;
        verif_cover!(fits, "unsigned source fits");
        match T::deserialize(FieldValue::Uint64(y).into_deserializer()) {
            Ok(t) => assert!(fits && to_i128(t) == y as i128, "Uint64 decodes to exactly its value, only when representable"),
            Err(e) => { assert!(!fits, "Uint64 that fits must decode"); core::mem::forget(e); }
        }
    }
}

// @harness c18_int_i8 tier=quick kind=complete timeout=900
// @ob i8::deserialize(Int64(x) / Uint64(y)) is Ok(v) with v == the source value exactly when it is representable in i8, Err otherwise (all 2^64 sources of each representation)
#[kani::proof]
#[kani::unwind(2)]
#[kani::stub(core::fmt::write, stub_fmt_write)]
#[kani::stub(alloc::fmt::format, stub_fmt_format)]
pub(crate) fn c18_int_i8() {
    int_contract::<i8>(|t| t as i128, i8::MIN as i128, i8::MAX as i128);
}

// @harness c18_int_i16 tier=quick kind=complete timeout=900
// @ob i16::deserialize(Int64(x) / Uint64(y)) is Ok(v) with v == the source value exactly when it is representable in i16, Err otherwise (all 2^64 sources of each representation)
#[kani::proof]
#[kani::unwind(2)]
#[kani::stub(core::fmt::write, stub_fmt_write)]
#[kani::stub(alloc::fmt::format, stub_fmt_format)]
pub(crate) fn c18_int_i16() {
    int_contract::<i16>(|t| t as i128, i16::MIN as i128, i16::MAX as i128);
}

// @harness c18_int_i32 tier=quick kind=complete timeout=900
// @ob i32::deserialize(Int64(x) / Uint64(y)) is Ok(v) with v == the source value exactly when it is representable in i32, Err otherwise (all 2^64 sources of each representation)
#[kani::proof]
#[kani::unwind(2)]
#[kani::stub(core::fmt::write, stub_fmt_write)]
#[kani::stub(alloc::fmt::format, stub_fmt_format)]
pub(crate) fn c18_int_i32() {
    int_contract::<i32>(|t| t as i128, i32::MIN as i128, i32::MAX as i128);
}

// @harness c18_int_i64 tier=quick kind=complete timeout=900
// @ob i64::deserialize(Int64(x) / Uint64(y)) is Ok(v) with v == the source value exactly when it is representable in i64, Err otherwise (all 2^64 sources of each representation)
#[kani::proof]
#[kani::unwind(2)]
#[kani::stub(core::fmt::write, stub_fmt_write)]
#[kani::stub(alloc::fmt::format, stub_fmt_format)]
pub(crate) fn c18_int_i64() {
    int_contract::<i64>(|t| t as i128, i64::MIN as i128, i64::MAX as i128);
}

// @harness c18_int_isize tier=quick kind=complete timeout=900
// @ob isize::deserialize(Int64(x) / Uint64(y)) is Ok(v) with v == the source value exactly when it is representable in isize, Err otherwise (all 2^64 sources of each representation)
#[kani::proof]
#[kani::unwind(2)]
#[kani::stub(core::fmt::write, stub_fmt_write)]
#[kani::stub(alloc::fmt::format, stub_fmt_format)]
pub(crate) fn c18_int_isize() {
    int_contract::<isize>(|t| t as i128, isize::MIN as i128, isize::MAX as i128);
}

// @harness c18_int_u8 tier=quick kind=complete timeout=900
// @ob u8::deserialize(Int64(x) / Uint64(y)) is Ok(v) with v == the source value exactly when it is representable in u8, Err otherwise (all 2^64 sources of each representation)
#[kani::proof]
#[kani::unwind(2)]
#[kani::stub(core::fmt::write, stub_fmt_write)]
#[kani::stub(alloc::fmt::format, stub_fmt_format)]
pub(crate) fn c18_int_u8() {
    int_contract::<u8>(|t| t as i128, u8::MIN as i128, u8::MAX as i128);
}

// @harness c18_int_u16 tier=quick kind=complete timeout=900
// @ob u16::deserialize(Int64(x) / Uint64(y)) is Ok(v) with v == the source value exactly when it is representable in u16, Err otherwise (all 2^64 sources of each representation)
#[kani::proof]
#[kani::unwind(2)]
#[kani::stub(core::fmt::write, stub_fmt_write)]
#[kani::stub(alloc::fmt::format, stub_fmt_format)]
pub(crate) fn c18_int_u16() {
    int_contract::<u16>(|t| t as i128, u16::MIN as i128, u16::MAX as i128);
}

// @harness c18_int_u32 tier=quick kind=complete timeout=900
// @ob u32::deserialize(Int64(x) / Uint64(y)) is Ok(v) with v == the source value exactly when it is representable in u32, Err otherwise (all 2^64 sources of each representation)
#[kani::proof]
#[kani::unwind(2)]
#[kani::stub(core::fmt::write, stub_fmt_write)]
#[kani::stub(alloc::fmt::format, stub_fmt_format)]
pub(crate) fn c18_int_u32() {
    int_contract::<u32>(|t| t as i128, u32::MIN as i128, u32::MAX as i128);
}

// @harness c18_int_u64 tier=quick kind=complete timeout=900
// @ob u64::deserialize(Int64(x) / Uint64(y)) is Ok(v) with v == the source value exactly when it is representable in u64, Err otherwise (all 2^64 sources of each representation)
#[kani::proof]
#[kani::unwind(2)]
#[kani::stub(core::fmt::write, stub_fmt_write)]
#[kani::stub(alloc::fmt::format, stub_fmt_format)]
pub(crate) fn c18_int_u64() {
    int_contract::<u64>(|t| t as i128, u64::MIN as i128, u64::MAX as i128);
}

// @harness c18_int_usize tier=quick kind=complete timeout=900
// @ob usize::deserialize(Int64(x) / Uint64(y)) is Ok(v) with v == the source value exactly when it is representable in usize, Err otherwise (all 2^64 sources of each representation)
#[kani::proof]
#[kani::unwind(2)]
#[kani::stub(core::fmt::write, stub_fmt_write)]
#[kani::stub(alloc::fmt::format, stub_fmt_format)]
pub(crate) fn c18_int_usize() {
    int_contract::<usize>(|t| t as i128, usize::MIN as i128, usize::MAX as i128);
}

// @harness c18_bool_float_option tier=quick kind=complete timeout=900
// @ob bool / f64 decode exactly; f32 decodes to (v as f32); Option<i64>: null <=> None, Some(x) carries x; a null never decodes into a plain integer
#[kani::proof]
#[kani::unwind(2)]
#[kani::stub(core::fmt::write, stub_fmt_write)]
#[kani::stub(alloc::fmt::format, stub_fmt_format)]
pub(crate) fn c18_bool_float_option() {
    match vk::any_u8() {
        0 => { let b = vk::any_bool(); assert!(bool::deserialize(FieldValue::Boolean(b).into_deserializer()).ok() == Some(b), "bool exact"); }
        1 => { let f = vk::any_f64(); vk::assume(f.is_finite()); let r = f64::deserialize(FieldValue::Float64(f).into_deserializer()); assert!(matches!(r, Ok(g) if g == f), "f64 exact"); core::mem::forget(r); }
        2 => { let f = vk::any_f64(); vk::assume(f.is_finite()); let r = f32::deserialize(FieldValue::Float64(f).into_deserializer()); assert!(matches!(r, Ok(g) if g == f as f32 || (g.is_nan() && (f as f32).is_nan())), "f32 is the rounded value"); core::mem::forget(r); }
        3 => { let r = Option::<i64>::deserialize(FieldValue::Null.into_deserializer()); assert!(matches!(r, Ok(None)), "null decodes to None"); core::mem::forget(r); }
        4 => { let x = vk::any_i64(); let r = Option::<i64>::deserialize(FieldValue::Int64(x).into_deserializer()); assert!(matches!(r, Ok(Some(v)) if v == x), "value decodes to Some(value)"); core::mem::forget(r); }
        5 => { let r = i64::deserialize(FieldValue::Null.into_deserializer()); assert!(r.is_err(), "null is not an integer"); core::mem::forget(r); }
        6 => { let x = vk::any_u64(); let r = Option::<u8>::deserialize(FieldValue::Uint64(x).into_deserializer()); match r { Ok(Some(v)) => assert!(v as u64 == x, "Option<u8> exact"), Ok(None) => assert!(false, "non-null is never None"), Err(e) => { assert!(x > 255, "fits must decode"); core::mem::forget(e); } } }
        _ => { let b = vk::any_bool(); let r = i64::deserialize(FieldValue::Boolean(b).into_deserializer()); assert!(r.is_err(), "bool is not an integer"); core::mem::forget(r); }
    }
}

// @harness c18_negative_control tier=quick kind=complete expect=fail
// @ob (control) claims every Int64 decodes into i8: must FAIL
#[kani::proof]
#[kani::unwind(2)]
#[kani::stub(core::fmt::write, stub_fmt_write)]
#[kani::stub(alloc::fmt::format, stub_fmt_format)]
pub(crate) fn c18_negative_control() {
    let r = i8::deserialize(FieldValue::Int64(vk::any_i64()).into_deserializer());
    assert!(r.is_ok(), "control: every Int64 fits i8 (false)");
    core::mem::forget(r);
}

// ---- rows, sequences, tuples, strings: bounded native stand-in ---------------------------------
#[derive(Debug, PartialEq, serde::Deserialize)]
struct Row { a: i64, b: Option<u8>, s: String, l: Vec<i64>, t: (i64, u64), f: bool }

// @grid c18_grid_rows tier=quick bound="rows {a: int, b: int|null, s: string, l: list of <= 3 ints, t: list of 1..3 ints, f: bool} with integer payloads from the 9+8 boundary values in both representations"
// @ob try_into_struct yields exactly the row's values when each is representable in its field type, and an error (never a wrapped number, never a silently truncated tuple) otherwise
pub(crate) fn c18_grid_rows() {
    use crate::serialization::TryIntoStruct;
    let mut n = 0u64;
    let ints: Vec<FieldValue> = vk::GRID_I64.iter().map(|x| FieldValue::Int64(*x)).chain(vk::GRID_U64.iter().map(|x| FieldValue::Uint64(*x))).collect();
    let num = |v: &FieldValue| -> i128 { match v { FieldValue::Int64(i) => *i as i128, FieldValue::Uint64(u) => *u as i128, _ => unreachable!() } };
    for a in ints.iter() { for b in ints.iter().chain([FieldValue::Null].iter()) { for tl in 1..4usize { for ll in 0..3usize {
        vk::grid_case(format_args!("a={:?} b={:?} tuple_len={} list_len={}", a, b, tl, ll));
        let mut row: BTreeMap<Arc<str>, FieldValue> = BTreeMap::new();
        row.insert(Arc::from("a"), a.clone());
        row.insert(Arc::from("b"), b.clone());
        row.insert(Arc::from("s"), FieldValue::String(Arc::from("xy")));
        let l: Vec<FieldValue> = (0..ll).map(|i| FieldValue::Int64(i as i64 - 1)).collect();
        row.insert(Arc::from("l"), FieldValue::List(l.into()));
        let t: Vec<FieldValue> = (0..tl).map(|i| FieldValue::Uint64(i as u64 + 7)).collect();
        row.insert(Arc::from("t"), FieldValue::List(t.into()));
        row.insert(Arc::from("f"), FieldValue::Boolean(ll % 2 == 0));
        let a_fits = i64::MIN as i128 <= num(a) && num(a) <= i64::MAX as i128;
        let b_fits = matches!(b, FieldValue::Null) || (0 <= num(b) && num(b) <= 255);
        let expect_ok = a_fits && b_fits && tl == 2;
        match row.try_into_struct::<Row>() {
            Ok(r) => {
                assert!(expect_ok, "row decoded although a value does not fit its field");
                assert!(r.a as i128 == num(a), "field a exact");
                assert!(r.b.map(|x| x as i128) == if matches!(b, FieldValue::Null) { None } else { Some(num(b)) }, "field b exact");
                assert!(r.s == "xy" && r.l == (0..ll).map(|i| i as i64 - 1).collect::<Vec<_>>() && r.t == (7, 8) && r.f == (ll % 2 == 0), "other fields exact");
            }
            Err(_) => assert!(!expect_ok, "row with representable values must decode"),
        }
        n += 1;
    } } } }
    vk::grid_done("c18_grid_rows", n);
}
