// Seeded generator of query documents over the numbers schema (deterministic for a given VERIF_SEED): scopes
// nested up to 3 deep, every edge of the schema, every scope decoration (@optional, @fold with and without
// count transforms / outputs / tags / filters, @recurse, type coercions), every filter operator with variable
// and tag arguments, aliases, repeated outputs of one property. Most documents are valid by construction (types
// of properties, tags and variables are tracked); a fraction deliberately is not. Used by the bounded native
// grids as an additional, non-enumerated source of shapes; nothing depends on a document being accepted.
#![allow(dead_code)]
#[cfg(all(test, verif_replay))]
pub use imp::*;

#[cfg(all(test, verif_replay))]
mod imp {
    use crate::ir::FieldValue;
    use std::collections::BTreeMap;
    use std::sync::Arc;

    pub struct Rng(pub u64);
    impl Rng {
        pub fn from_env(salt: u64) -> Rng {
            let seed: u64 = std::env::var("VERIF_SEED").ok().and_then(|s| s.parse().ok()).unwrap_or(0);
            let mut r = Rng(0x9E37_79B9_7F4A_7C15 ^ seed.wrapping_mul(0xD6E8_FEB8_6659_FD93) ^ salt.wrapping_mul(0xA24B_AED4_963E_E407));
            for _ in 0..4 { r.next(); }
            r
        }
        pub fn next(&mut self) -> u64 { let mut x = self.0; x ^= x << 13; x ^= x >> 7; x ^= x << 17; self.0 = if x == 0 { 0x1234_5678 } else { x }; self.0 }
        pub fn below(&mut self, n: u64) -> u64 { (self.next() >> 11) % n.max(1) }
        pub fn chance(&mut self, percent: u64) -> bool { self.below(100) < percent }
        pub fn pick<'a, T>(&mut self, xs: &'a [T]) -> &'a T { &xs[self.below(xs.len() as u64) as usize] }
    }

    #[derive(Clone, Copy, PartialEq, Debug)]
    pub enum Ty { Int, Str, StrList }

    pub struct Doc { pub query: String, pub arguments: BTreeMap<Arc<str>, FieldValue> }

    struct Gen<'r> { rng: &'r mut Rng, next_id: usize, args: BTreeMap<Arc<str>, FieldValue>, sloppy: bool }

    const INT_OPS: [&str; 6] = ["=", "!=", "<", "<=", ">", ">="];
    const STR_OPS: [&str; 12] = ["=", "!=", "<", ">=", "has_prefix", "not_has_prefix", "has_suffix", "not_has_suffix", "has_substring", "not_has_substring", "regex", "not_regex"];

    impl<'r> Gen<'r> {
        fn id(&mut self) -> usize { self.next_id += 1; self.next_id }
        fn value_of(&mut self, ty: Ty) -> FieldValue {
            match ty {
                Ty::Int => FieldValue::Int64(self.rng.below(9) as i64 - 1),
                Ty::Str => FieldValue::String(Arc::from(*self.rng.pick(&["two", "t", "e", "^t", "o$", "", "(", "seven", "four"]))),
                Ty::StrList => FieldValue::List(vec![FieldValue::String(Arc::from(*self.rng.pick(&["e", "o", "u"])))].into()),
            }
        }
        fn variable(&mut self, value: FieldValue) -> String { let name = format!("v{}", self.id()); self.args.insert(Arc::from(name.as_str()), value); format!("${name}") }
        /// one filter directive on a property of type `ty`; `tags` are the tags visible here
        fn filter(&mut self, ty: Ty, tags: &[(String, Ty)]) -> String {
            let mut ty_for_arg = ty;
            if self.sloppy && self.rng.chance(30) { ty_for_arg = *self.rng.pick(&[Ty::Int, Ty::Str, Ty::StrList]); }
            let usable: Vec<&(String, Ty)> = tags.iter().filter(|(_, t)| *t == ty_for_arg).collect();
            match self.rng.below(10) {
                0 => format!(r#"@filter(op: "{}")"#, self.rng.pick(&["is_null", "is_not_null"])),
                1 | 2 if ty != Ty::StrList => {
                    let op = *self.rng.pick(&["one_of", "not_one_of"]);
                    let n = self.rng.below(4);
                    let items: Vec<FieldValue> = (0..n).map(|_| self.value_of(ty_for_arg)).collect();
                    let v = self.variable(FieldValue::List(items.into()));
                    format!(r#"@filter(op: "{op}", value: ["{v}"])"#)
                }
                3 if ty == Ty::StrList => {
                    let op = *self.rng.pick(&["contains", "not_contains"]);
                    let arg = if !tags.is_empty() && self.rng.chance(40) { let strs: Vec<&(String, Ty)> = tags.iter().filter(|(_, t)| *t == Ty::Str).collect(); if strs.is_empty() { let v = self.value_of(Ty::Str); self.variable(v) } else { format!("%{}", self.rng.pick(&strs).0) } } else { let v = self.value_of(Ty::Str); self.variable(v) };
                    format!(r#"@filter(op: "{op}", value: ["{arg}"])"#)
                }
                _ => {
                    let mut op = match ty { Ty::Int => *self.rng.pick(&INT_OPS), Ty::Str => *self.rng.pick(&STR_OPS), Ty::StrList => *self.rng.pick(&["=", "!="]) };
                    // ill-typed on purpose: any operator on any property type
                    if self.sloppy && self.rng.chance(40) { op = *self.rng.pick(&["<", ">=", "has_prefix", "not_has_suffix", "has_substring", "not_has_substring", "regex", "not_regex", "contains", "not_contains", "one_of", "not_one_of"]); }
                    let arg = if !usable.is_empty() && self.rng.chance(50) { format!("%{}", self.rng.pick(&usable).0) } else { let v = self.value_of(ty_for_arg); self.variable(v) };
                    format!(r#"@filter(op: "{op}", value: ["{arg}"])"#)
                }
            }
        }
        /// the selections inside one vertex scope; `composite` says whether Composite-only edges are available
        fn scope(&mut self, depth: usize, composite: bool, tags: &mut Vec<(String, Ty)>, must_output: bool) -> String {
            let mut out = String::new();
            let props: [(&str, Ty); 4] = [("value", Ty::Int), ("name", Ty::Str), ("vowelsInName", Ty::StrList), ("__typename", Ty::Str)];
            let nprops = 1 + self.rng.below(3);
            let mut produced_output = false;
            for _ in 0..nprops {
                let (p, ty) = *self.rng.pick(&props);
                let alias = if self.rng.chance(10) { format!("a{}: ", self.id()) } else { String::new() };
                out.push_str(&format!("{alias}{p} "));
                if self.rng.chance(70) || (must_output && !produced_output) { out.push_str(&format!(r#"@output(name: "o{}") "#, self.id())); produced_output = true; }
                if self.rng.chance(35) { let t = format!("t{}", self.id()); out.push_str(&format!(r#"@tag(name: "{t}") "#)); tags.push((t, ty)); }
                let nf = if self.rng.chance(35) { 1 + self.rng.below(2) } else { 0 };
                for _ in 0..nf { let f = self.filter(ty, tags); out.push_str(&f); out.push(' '); }
            }
            if depth == 0 { return out; }
            let nedges = self.rng.below(3);
            for _ in 0..nedges {
                let mut edges: Vec<(String, bool)> = vec![("successor".into(), false), ("predecessor".into(), false), (format!("multiple(max: {})", 1 + self.rng.below(3)), true)];
                if composite { edges.push(("divisor".into(), false)); edges.push(("primeFactor".into(), false)); }
                let (edge, to_composite) = self.rng.pick(&edges).clone();
                let alias = if self.rng.chance(10) { format!("e{}: ", self.id()) } else { String::new() };
                let kind = self.rng.below(12);
                let scope_tags_before = tags.len();
                match kind {
                    0 | 1 => { // fold with a count
                        let mut dirs = String::from(r#"@fold @transform(op: "count") "#);
                        if self.rng.chance(50) { dirs.push_str(&format!(r#"@output(name: "c{}") "#, self.id())); }
                        if self.rng.chance(30) { let t = format!("t{}", self.id()); dirs.push_str(&format!(r#"@tag(name: "{t}") "#)); tags.push((t, Ty::Int)); }
                        let nf = self.rng.below(3);
                        let outer: Vec<(String, Ty)> = tags[..scope_tags_before].to_vec();
                        for _ in 0..nf { let f = self.filter(Ty::Int, &outer); dirs.push_str(&f); dirs.push(' '); }
                        let body = if self.rng.chance(60) { let mut inner = tags[..scope_tags_before].to_vec(); let b = self.scope(depth - 1, to_composite, &mut inner, false); format!("{{ {b} }}") } else { String::new() };
                        out.push_str(&format!("{alias}{edge} {dirs}{body} "));
                    }
                    2 | 3 => { let mut inner = tags[..scope_tags_before].to_vec(); let b = self.scope(depth - 1, to_composite, &mut inner, true); out.push_str(&format!("{alias}{edge} @fold {{ {b} }} ")); }
                    4 | 5 => { let mut inner = tags.clone(); let b = self.scope(depth - 1, to_composite, &mut inner, false); tags.extend(inner.into_iter().skip(scope_tags_before)); out.push_str(&format!("{alias}{edge} @optional {{ {b} }} ")); }
                    6 if edge == "successor" || edge == "predecessor" => { let d = 1 + self.rng.below(3); let mut inner = tags.clone(); let b = self.scope(depth - 1, false, &mut inner, false); out.push_str(&format!("{alias}{edge} @recurse(depth: {d}) {{ {b} }} ")); }
                    7 => { let target = *self.rng.pick(&["Prime", "Composite", "Neither"]); let mut inner = tags.clone(); let b = self.scope(depth - 1, target == "Composite", &mut inner, false); tags.extend(inner.into_iter().skip(scope_tags_before)); out.push_str(&format!("{alias}{edge} {{ ... on {target} {{ {b} }} }} ")); }
                    _ => { let mut inner = tags.clone(); let b = self.scope(depth - 1, to_composite, &mut inner, false); tags.extend(inner.into_iter().skip(scope_tags_before)); out.push_str(&format!("{alias}{edge} {{ {b} }} ")); }
                }
            }
            out
        }
    }

    /// `sloppy_percent`: how many of the documents may deliberately contain type mismatches
    pub fn documents(count: usize, salt: u64, sloppy_percent: u64) -> Vec<Doc> {
        let mut rng = Rng::from_env(salt);
        let mut docs = Vec::with_capacity(count);
        for _ in 0..count {
            let sloppy = rng.chance(sloppy_percent);
            let depth = 1 + rng.below(3) as usize;
            // mostly small numbers; sometimes the range where the data source has null names and null vowel lists (above 20)
            let (lo, hi) = if rng.chance(20) { let lo = 17 + rng.below(5) as i64; (lo, lo + rng.below(5) as i64) } else { (rng.below(4) as i64, 4 + rng.below(6) as i64) };
            let mut g = Gen { rng: &mut rng, next_id: 0, args: BTreeMap::new(), sloppy };
            let mut tags = Vec::new();
            let coerce = g.rng.chance(20);
            let body = g.scope(depth, coerce, &mut tags, true);
            let body = if coerce { format!("... on Composite {{ {body} }}") } else { body };
            let query = format!("{{ Number(min: {lo}, max: {hi}) {{ {body} }} }}");
            let args = g.args;
            // a tag that is never used makes the document invalid: unless the document is a sloppy one, drop such tags
            let mut query = query;
            if !sloppy {
                let names: Vec<String> = query.match_indices("@tag(name: \"").map(|(i, m)| { let rest = &query[i + m.len()..]; rest[..rest.find('"').unwrap()].to_string() }).collect();
                for t in names { if !query.contains(&format!("%{t}\"")) { query = query.replace(&format!("@tag(name: \"{t}\") "), ""); } }
            }
            docs.push(Doc { query, arguments: args });
        }
        docs
    }

    /// Only the documents the real frontend accepts and whose arguments it accepts (with the compiled query).
    pub fn accepted(count: usize, salt: u64) -> Vec<(Doc, Arc<crate::ir::IndexedQuery>)> {
        let schema = crate::verif_corpus::schema("numbers");
        let mut out = Vec::new();
        for d in documents(count, salt, 0) {
            let Ok(Ok(iq)) = std::panic::catch_unwind(|| crate::frontend::parse(schema, &d.query)) else { continue; };
            if crate::interpreter::InterpretedQuery::from_query_and_arguments(iq.clone(), Arc::new(d.arguments.clone())).is_err() { continue; }
            out.push((d, iq));
        }
        out
    }
}
