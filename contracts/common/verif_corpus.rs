// Corpus helper for the bounded native stand-ins: the repository's own ~170 valid test queries
// (test_data/tests/valid_queries/*.graphql.ron) plus extra shapes, compiled by the real frontend.
// Only exists in native test builds (uses the cfg(test) adapters and the `ron` dev-dependency).
#![allow(dead_code)]
#[cfg(all(test, verif_replay))]
pub use imp::*;

#[cfg(all(test, verif_replay))]
mod imp {
    use crate::ir::{FieldValue, IndexedQuery};
    use crate::schema::Schema;
    use crate::test_types::TestGraphQLQuery;
    use std::collections::BTreeMap;
    use std::sync::{Arc, OnceLock};

    pub struct Case {
        pub name: String,
        pub schema_name: String,
        pub query: String,
        pub arguments: BTreeMap<Arc<str>, FieldValue>,
    }

    pub fn schema(name: &str) -> &'static Schema {
        static S: OnceLock<BTreeMap<&'static str, Schema>> = OnceLock::new();
        let m = S.get_or_init(|| {
            let mut m = BTreeMap::new();
            for n in ["filesystem", "numbers", "nullables", "recurses"] {
                let text = std::fs::read_to_string(format!("test_data/schemas/{n}.graphql")).expect("schema file");
                m.insert(n, Schema::parse(text).expect("valid schema"));
            }
            m
        });
        m.get(name).unwrap_or_else(|| panic!("unknown schema {name}"))
    }

    /// Extra accepted query shapes the repository corpus does not contain (numbers schema).
    const EXTRA: [(&str, &str); 39] = [
        ("x_tag_twice_in_fold", r#"{ Number(min: 2, max: 4) { value @tag(name: "v") @output multiple(max: 3) @fold { value @output(name: "m") @filter(op: ">", value: ["%v"]) @filter(op: "!=", value: ["%v"]) } } }"#),
        ("x_tag_in_fold_and_nested_fold", r#"{ Number(min: 2, max: 4) { value @tag(name: "v") @output multiple(max: 3) @fold { value @output(name: "m") @filter(op: ">", value: ["%v"]) divisor @fold { value @output(name: "d") @filter(op: "<=", value: ["%v"]) } } } }"#),
        ("x_tag_only_in_nested_fold", r#"{ Number(min: 2, max: 4) { name @output value @tag(name: "v") multiple(max: 3) @fold { value @output(name: "m") divisor @fold { value @output(name: "d") @filter(op: "<=", value: ["%v"]) } } } }"#),
        ("x_tag_in_fold_count_filter", r#"{ Number(min: 2, max: 4) { name @output value @tag(name: "v") multiple(max: 3) @fold @transform(op: "count") @filter(op: "<", value: ["%v"]) { value @output(name: "m") } } }"#),
        ("x_inner_fold_tag_used_in_nested_fold", r#"{ Number(min: 2, max: 3) { value @output multiple(max: 3) @fold { value @tag(name: "m") @output(name: "mv") divisor @fold { value @output(name: "d") @filter(op: "<", value: ["%m"]) } } } }"#),
        ("x_optional_inside_fold", r#"{ Number(min: 0, max: 3) { value @output multiple(max: 2) @fold { value @output(name: "m") predecessor @optional { value @output(name: "p") } } } }"#),
        ("x_fold_inside_optional", r#"{ Number(min: 0, max: 2) { value @output predecessor @optional { value @output(name: "p") multiple(max: 2) @fold @transform(op: "count") @output(name: "cnt") { value @output(name: "m") } } } }"#),
        ("x_tag_in_two_sibling_folds", r#"{ Number(min: 2, max: 4) { value @tag(name: "v") @output multiple(max: 3) @fold { value @output(name: "m") @filter(op: ">", value: ["%v"]) } successor { multiple(max: 2) @fold { value @output(name: "sm") @filter(op: ">", value: ["%v"]) } } } }"#),
        ("x_tag_in_two_folds_of_one_vertex", r#"{ Number(min: 2, max: 4) { value @tag(name: "v") @output multiple(max: 3) @fold { value @output(name: "m") @filter(op: ">", value: ["%v"]) } predecessor @fold { value @output(name: "p") @filter(op: "<", value: ["%v"]) } } }"#),
        ("x_two_tags_on_one_property_in_fold", r#"{ Number(min: 2, max: 4) { value @tag(name: "a") @tag(name: "b") @output multiple(max: 3) @fold { value @output(name: "m") @filter(op: ">", value: ["%a"]) @filter(op: "!=", value: ["%b"]) } } }"#),
        ("x_recurse_inside_optional", r#"{ Number(min: 0, max: 2) { value @output predecessor @optional { value @output(name: "p") successor @recurse(depth: 2) { value @output(name: "r") } } } }"#),
        ("x_variable_wide_then_narrow", r#"{ Number(min: 0, max: 5) { value @output @filter(op: "!=", value: ["$x"]) successor { value @filter(op: "<", value: ["$x"]) } } }"#),
        ("x_variable_wide_then_fold_count", r#"{ Number(min: 0, max: 5) { value @output @filter(op: "!=", value: ["$x"]) multiple(max: 3) @fold @transform(op: "count") @filter(op: ">=", value: ["$x"]) } }"#),
        ("x_recurse_implicit_coercion_depth3", r#"{ Number(min: 4, max: 12) { ... on Composite { value @output divisor @recurse(depth: 3) { value @output(name: "d") } } } }"#),
        ("x_recurse_implicit_and_explicit_coercion", r#"{ Number(min: 4, max: 12) { ... on Composite { value @output divisor @recurse(depth: 2) { ... on Prime { value @output(name: "p") } } } } }"#),
        ("x_recurse_coercion_in_fold", r#"{ Number(min: 4, max: 9) { ... on Composite { value @output primeFactor @fold { value @output(name: "pf") successor @recurse(depth: 3) { value @output(name: "m") } } } } }"#),
        ("x_tag_used_by_other_property_same_vertex", r#"{ Number(min: 0, max: 6) { value @output name @tag(name: "n") vowelsInName @filter(op: "not_contains", value: ["%n"]) } }"#),
        ("x_tag_used_by_same_vertex_and_fold", r#"{ Number(min: 2, max: 6) { name @output value @tag(name: "v") successor { value @tag(name: "s") name @filter(op: "!=", value: ["$nm"]) predecessor { value @filter(op: "<", value: ["%s"]) @filter(op: "=", value: ["%v"]) } } } }"#),
        ("x_two_properties_tagged_on_inner_vertex", r#"{ Number(min: 2, max: 5) { value @output successor { name @tag(name: "sn") value @tag(name: "sv") successor { name @output(name: "n2") @filter(op: "!=", value: ["%sn"]) value @filter(op: ">", value: ["%sv"]) } } } }"#),
        ("x_optional_tag_used_on_sibling_gt", r#"{ Number(min: 0, max: 5) { value @output predecessor @optional { value @tag(name: "p") } successor { value @output(name: "s") @filter(op: ">", value: ["%p"]) } } }"#),
        ("x_optional_tag_used_on_sibling_lt", r#"{ Number(min: 0, max: 5) { value @output predecessor @optional { value @tag(name: "p") } successor { value @output(name: "s") @filter(op: "<", value: ["%p"]) } } }"#),
        ("x_optional_tag_used_in_sibling_fold", r#"{ Number(min: 0, max: 5) { value @output predecessor @optional { value @tag(name: "p") } multiple(max: 3) @fold { value @output(name: "m") @filter(op: ">", value: ["%p"]) } } }"#),
        ("x_nested_optional_tag_used_later", r#"{ Number(min: 0, max: 5) { value @output predecessor @optional { predecessor @optional { value @tag(name: "pp") } } successor { value @output(name: "s") @filter(op: "!=", value: ["%pp"]) successor { value @filter(op: ">", value: ["%pp"]) } } } }"#),
        ("x_regex_with_tag", r#"{ Number(min: 0, max: 9) { value @output name @tag(name: "n") successor { name @output(name: "sn") @filter(op: "regex", value: ["%n"]) } } }"#),
        ("x_not_regex_with_tag", r#"{ Number(min: 0, max: 9) { value @output name @tag(name: "n") successor { name @output(name: "sn") @filter(op: "not_regex", value: ["%n"]) } } }"#),
        ("x_not_regex_with_tag_on_multiple", r#"{ Number(min: 0, max: 9) { value @output name @tag(name: "n") multiple(max: 3) { name @output(name: "mn") @filter(op: "not_regex", value: ["%n"]) } } }"#),
        ("x_regex_with_optional_tag", r#"{ Number(min: 0, max: 6) { value @output predecessor @optional { name @tag(name: "pn") } successor { name @output(name: "sn") @filter(op: "not_regex", value: ["%pn"]) } } }"#),
        ("x_one_of_with_repeated_values", r#"{ Number(min: 0, max: 6) { value @output @filter(op: "one_of", value: ["$dups"]) successor { value @output(name: "s") @filter(op: "one_of", value: ["$dups"]) } } }"#),
        ("x_one_of_with_repeated_values_in_fold", r#"{ Number(min: 0, max: 4) { value @output multiple(max: 3) @fold { value @output(name: "m") @filter(op: "one_of", value: ["$dups"]) } } }"#),
        ("x_fold_with_three_vertices_using_three_outer_tags", r#"{ Number(min: 2, max: 4) { value @tag(name: "a") @output name @tag(name: "b") vowelsInName @tag(name: "c") multiple(max: 3) @fold { value @output(name: "m") @filter(op: ">", value: ["%a"]) successor { name @filter(op: "!=", value: ["%b"]) predecessor { vowelsInName @filter(op: "!=", value: ["%c"]) successor { value @filter(op: ">", value: ["%a"]) name @filter(op: "!=", value: ["%b"]) } } } } } }"#),
        ("x_nested_folds_importing_tags_in_reverse_order", r#"{ Number(min: 2, max: 4) { value @tag(name: "a") @output name @tag(name: "b") vowelsInName @tag(name: "c") multiple(max: 3) @fold { vowelsInName @filter(op: "!=", value: ["%c"]) value @output(name: "m") divisor @fold { name @filter(op: "!=", value: ["%b"]) value @output(name: "d") successor { value @filter(op: ">", value: ["%a"]) } } } } }"#),
        ("x_ordering_filter_with_null_tag_lt", r#"{ Number(min: 19, max: 23) { value @output name @tag(name: "n") predecessor { name @output(name: "pn") @filter(op: "<", value: ["%n"]) } } }"#),
        ("x_ordering_filter_with_null_tag_ge", r#"{ Number(min: 19, max: 23) { value @output name @tag(name: "n") predecessor { name @output(name: "pn") @filter(op: ">=", value: ["%n"]) } } }"#),
        ("x_ordering_filter_with_null_tag_le_gt", r#"{ Number(min: 19, max: 23) { value @output name @tag(name: "n") successor { name @output(name: "sn") @filter(op: "<=", value: ["%n"]) predecessor { name @filter(op: ">", value: ["%n"]) } } } }"#),
        ("x_null_property_against_non_null_tag", r#"{ Number(min: 18, max: 22) { value @output name @tag(name: "n") successor { successor { name @output(name: "ssn") @filter(op: "<", value: ["%n"]) } } } }"#),
        ("x_fold_two_required_edges_below_missing_optional", r#"{ Number(min: 0, max: 2) { value @output predecessor @optional { successor { multiple(max: 2) @fold { value @output(name: "m") } } } } }"#),
        ("x_typename_and_count_two_edges_below_missing_optional", r#"{ Number(min: 0, max: 2) { value @output predecessor @optional { successor { successor { __typename @output(name: "kind") multiple(max: 2) @fold @transform(op: "count") @output(name: "cnt") } } } } }"#),
        ("x_fold_list_three_edges_below_missing_optional", r#"{ Number(min: 0, max: 2) { value @output predecessor @optional { successor { predecessor { successor { multiple(max: 2) @fold { name @output(name: "mn") divisor @fold { value @output(name: "d") } } } } } } } }"#),
        ("x_variable_used_twice", r#"{ Number(min: 0, max: 5) { value @output @filter(op: ">=", value: ["$x"]) successor { value @filter(op: "!=", value: ["$x"]) } } }"#),
    ];

    pub fn corpus() -> Vec<Case> {
        let mut out = Vec::new();
        let mut names: Vec<String> = std::fs::read_dir("test_data/tests/valid_queries").expect("corpus dir")
            .filter_map(|e| e.ok()).map(|e| e.file_name().to_string_lossy().to_string())
            .filter(|n| n.ends_with(".graphql.ron")).collect();
        names.sort();
        for n in names {
            let text = std::fs::read_to_string(format!("test_data/tests/valid_queries/{n}")).unwrap();
            let q: TestGraphQLQuery = ron::from_str(&text).unwrap_or_else(|e| panic!("{n}: {e}"));
            out.push(Case { name: n.trim_end_matches(".graphql.ron").to_string(), schema_name: q.schema_name, query: q.query,
                            arguments: q.arguments.into_iter().map(|(k, v)| (Arc::from(k), v)).collect() });
        }
        for (name, q) in EXTRA {
            let mut arguments = BTreeMap::new();
            if q.contains("$x") { arguments.insert(Arc::from("x"), FieldValue::Int64(2)); }
            if q.contains("$dups") { arguments.insert(Arc::from("dups"), FieldValue::List(vec![FieldValue::Int64(2), FieldValue::Int64(2), FieldValue::Int64(3), FieldValue::Int64(4), FieldValue::Int64(2)].into())); }
            if q.contains("$nm") { arguments.insert(Arc::from("nm"), FieldValue::String(Arc::from("three"))); }
            out.push(Case { name: name.to_string(), schema_name: "numbers".to_string(), query: q.to_string(), arguments });
        }
        out
    }

    /// The corpus plus `n` seeded random documents that the frontend accepts (see verif_random.rs), named rnd_<i>.
    pub fn corpus_with_random(n: usize, salt: u64) -> Vec<Case> {
        let mut out = corpus();
        for (i, (d, _)) in crate::verif_random::accepted(n * 2, salt).into_iter().take(n).enumerate() {
            out.push(Case { name: format!("rnd_{i} {}", d.query), schema_name: "numbers".to_string(), query: d.query, arguments: d.arguments });
        }
        out
    }

    pub fn compile(case: &Case) -> Option<Arc<IndexedQuery>> {
        crate::frontend::parse(schema(&case.schema_name), &case.query).ok()
    }

    pub type Row = BTreeMap<Arc<str>, FieldValue>;
    pub enum Run { Rows(Arc<IndexedQuery>, Vec<Row>), FrontendError(String), ArgumentError(String), Panic(String) }

    /// Compile and execute a numbers-schema query on the repository's NumbersAdapter (at most `limit` rows).
    pub fn run_numbers(query: &str, args: &[(&str, FieldValue)], limit: usize) -> Run {
        let adapter = Arc::new(crate::numbers_interpreter::NumbersAdapter::new());
        let iq = match crate::frontend::parse(adapter.schema(), query) { Ok(q) => q, Err(e) => return Run::FrontendError(format!("{e}")) };
        let args: BTreeMap<Arc<str>, FieldValue> = args.iter().map(|(k, v)| (Arc::from(*k), v.clone())).collect();
        let iq2 = iq.clone();
        let attempt = std::panic::catch_unwind(std::panic::AssertUnwindSafe(move || {
            match crate::interpreter::execution::interpret_ir(adapter, iq2, Arc::new(args)) {
                Ok(rows) => Ok(rows.take(limit).collect::<Vec<_>>()),
                Err(e) => Err(format!("{e}")),
            }
        }));
        match attempt {
            Ok(Ok(rows)) => Run::Rows(iq, rows),
            Ok(Err(e)) => Run::ArgumentError(e),
            Err(p) => Run::Panic(p.downcast_ref::<String>().cloned().or_else(|| p.downcast_ref::<&str>().map(|s| s.to_string())).unwrap_or_default()),
        }
    }
}
