// Order-preserving adapter wrapper that reads ahead: every resolver pulls its input contexts in chunks
// (first chunk inside the resolver call or on the first poll, before its first output) and buffers its outputs the same way. Chunk sizes come
// from a rotating 2-bit schedule word (sizes 1..4). Shared by the C02 and C15 grids.
#![allow(dead_code)]
#[cfg(all(test, verif_replay))]
pub use imp::*;

#[cfg(all(test, verif_replay))]
mod imp {
use crate::interpreter::{Adapter, AsVertex, ContextIterator, ContextOutcomeIterator, ResolveEdgeInfo, ResolveInfo, VertexIterator};
use crate::ir::{EdgeParameters, FieldValue};
use crate::numbers_interpreter::{NumbersAdapter, NumbersVertex};
use std::cell::Cell;
use std::collections::VecDeque;
use std::rc::Rc;
use std::sync::Arc;

pub const SCHEDULES: [u64; 5] = [0u64, u64::MAX, 0x1B1B_1B1B_1B1B_1B1B, 0xE4E4_E4E4_E4E4_E4E4, 0x39C6_39C6_39C6_39C6];

/// Pulls `chunk` items from the inner iterator at a time - the first chunk at construction (`call_time`,
/// i.e. inside the resolver call, before it returns its iterator) or on the first poll.
pub struct ReadAhead<I: Iterator> { inner: I, buf: VecDeque<I::Item>, sizes: Rc<Cell<u64>>, done: bool }
impl<I: Iterator> ReadAhead<I> {
    fn next_size(sizes: &Rc<Cell<u64>>) -> usize { let s = sizes.get(); sizes.set(s.rotate_right(2)); (s & 3) as usize + 1 }
    fn new(inner: I, sizes: Rc<Cell<u64>>, call_time: bool) -> Self {
        let mut r = ReadAhead { inner, buf: VecDeque::new(), sizes, done: false };
        if call_time { r.fill(); }
        r
    }
    /// never polls the inner iterator again once it has returned None
    fn fill(&mut self) {
        let k = Self::next_size(&self.sizes);
        for _ in 0..k { if self.done { break; } match self.inner.next() { Some(x) => self.buf.push_back(x), None => self.done = true } }
    }
}
impl<I: Iterator> Iterator for ReadAhead<I> {
    type Item = I::Item;
    fn next(&mut self) -> Option<I::Item> {
        if self.buf.is_empty() { self.fill(); }
        self.buf.pop_front()
    }
}

#[derive(Debug, Clone)]
pub struct Batching { pub inner: NumbersAdapter, pub sizes: Rc<Cell<u64>>, pub call_time: bool }
impl<'a> Adapter<'a> for Batching {
    type Vertex = NumbersVertex;
    fn resolve_starting_vertices(&self, edge_name: &Arc<str>, parameters: &EdgeParameters, resolve_info: &ResolveInfo) -> VertexIterator<'a, Self::Vertex> {
        Box::new(ReadAhead::new(self.inner.resolve_starting_vertices(edge_name, parameters, resolve_info), self.sizes.clone(), self.call_time))
    }
    fn resolve_property<V: AsVertex<Self::Vertex> + 'a>(&self, contexts: ContextIterator<'a, V>, type_name: &Arc<str>, property_name: &Arc<str>, resolve_info: &ResolveInfo) -> ContextOutcomeIterator<'a, V, FieldValue> {
        let contexts: ContextIterator<'a, V> = Box::new(ReadAhead::new(contexts, self.sizes.clone(), self.call_time));
        Box::new(ReadAhead::new(self.inner.resolve_property(contexts, type_name, property_name, resolve_info), self.sizes.clone(), self.call_time))
    }
    fn resolve_neighbors<V: AsVertex<Self::Vertex> + 'a>(&self, contexts: ContextIterator<'a, V>, type_name: &Arc<str>, edge_name: &Arc<str>, parameters: &EdgeParameters, resolve_info: &ResolveEdgeInfo) -> ContextOutcomeIterator<'a, V, VertexIterator<'a, Self::Vertex>> {
        let contexts: ContextIterator<'a, V> = Box::new(ReadAhead::new(contexts, self.sizes.clone(), self.call_time));
        Box::new(ReadAhead::new(self.inner.resolve_neighbors(contexts, type_name, edge_name, parameters, resolve_info), self.sizes.clone(), self.call_time))
    }
    fn resolve_coercion<V: AsVertex<Self::Vertex> + 'a>(&self, contexts: ContextIterator<'a, V>, type_name: &Arc<str>, coerce_to_type: &Arc<str>, resolve_info: &ResolveInfo) -> ContextOutcomeIterator<'a, V, bool> {
        let contexts: ContextIterator<'a, V> = Box::new(ReadAhead::new(contexts, self.sizes.clone(), self.call_time));
        Box::new(ReadAhead::new(self.inner.resolve_coercion(contexts, type_name, coerce_to_type, resolve_info), self.sizes.clone(), self.call_time))
    }
}

}
