// Input shim shared by every contract harness (appended to trustfall_core/src/lib.rs by the
// overlay, as `pub(crate) mod verif_vk`).
//
// * under `cfg(kani)`   : symbolic values (`kani::any`) / `kani::assume` / `kani::cover!`.
// * under `cfg(verif_replay)` (native build with the repository's own toolchain): the values of a
//   CBMC counterexample are popped, in call order, from the file named by VERIF_REPLAY_INPUT
//   (one line per `any_*` call: comma separated little-endian bytes, exactly the byte vectors
//   printed by `cargo kani --concrete-playback=print`).
#![allow(dead_code)]

#[cfg(kani)]
mod imp {
    pub fn any_u8() -> u8 { kani::any() }
    pub fn any_bool() -> bool { kani::any() }
    pub fn any_i64() -> i64 { kani::any() }
    pub fn any_u64() -> u64 { kani::any() }
    pub fn any_u32() -> u32 { kani::any() }
    pub fn any_usize() -> usize { kani::any() }
    pub fn any_f64() -> f64 { kani::any() }
    pub fn assume(c: bool) { kani::assume(c) }
    pub fn reached(_label: &'static str) {}
}

#[cfg(all(not(kani), verif_replay))]
mod imp {
    use std::cell::RefCell;
    use std::collections::VecDeque;

    thread_local! {
        static INPUT: RefCell<Option<VecDeque<Vec<u8>>>> = const { RefCell::new(None) };
    }

    fn load() -> VecDeque<Vec<u8>> {
        let path = std::env::var("VERIF_REPLAY_INPUT").expect("VERIF_REPLAY_INPUT not set");
        let text = std::fs::read_to_string(path).expect("cannot read replay input");
        text.lines()
            .filter(|l| !l.trim().is_empty())
            .map(|l| l.split(',').map(|b| b.trim().parse::<u8>().expect("byte")).collect())
            .collect()
    }

    fn pop(n: usize) -> Vec<u8> {
        INPUT.with(|cell| {
            let mut guard = cell.borrow_mut();
            let q = guard.get_or_insert_with(load);
            // When the counterexample has fewer values than the harness draws (CBMC slices away
            // unconstrained inputs) the remaining draws are zero, as in Kani's own playback.
            let mut v = q.pop_front().unwrap_or_else(|| vec![0u8; n]);
            v.resize(n, 0);
            v
        })
    }

    pub fn any_u8() -> u8 { pop(1)[0] }
    pub fn any_bool() -> bool { pop(1)[0] & 1 == 1 }
    pub fn any_i64() -> i64 { i64::from_le_bytes(pop(8).try_into().unwrap()) }
    pub fn any_u64() -> u64 { u64::from_le_bytes(pop(8).try_into().unwrap()) }
    pub fn any_u32() -> u32 { u32::from_le_bytes(pop(4).try_into().unwrap()) }
    pub fn any_usize() -> usize { usize::from_le_bytes(pop(8).try_into().unwrap()) }
    pub fn any_f64() -> f64 { f64::from_le_bytes(pop(8).try_into().unwrap()) }
    pub fn assume(c: bool) {
        if !c {
            // The replayed values do not satisfy the harness precondition: the replay is void.
            eprintln!("VERIF-REPLAY: assumption violated");
            std::process::exit(77);
        }
    }
    pub fn reached(label: &'static str) {
        eprintln!("VERIF-REPLAY: reached {label}");
    }
}

pub use imp::*;

/// Native grid stand-ins: record the case about to be executed / the number of cases executed.
pub fn grid_case(_desc: std::fmt::Arguments<'_>) {
    #[cfg(all(not(kani), verif_replay))]
    {
        use std::io::Write;
        // keep only the last case visible near a panic: print every case, the driver reads the last one
        let _ = writeln!(std::io::stderr(), "VERIF-GRID-CASE: {}", _desc);
    }
}
pub fn grid_done(_name: &str, _cases: u64) {
    #[cfg(all(not(kani), verif_replay))]
    eprintln!("VERIF-GRID-DONE {} cases={}", _name, _cases);
}
/// Boundary grids for integer payloads.
pub const GRID_I64: [i64; 9] = [i64::MIN, i64::MIN + 1, -2, -1, 0, 1, 2, i64::MAX - 1, i64::MAX];
pub const GRID_U64: [u64; 8] = [0, 1, 2, i64::MAX as u64 - 1, i64::MAX as u64, i64::MAX as u64 + 1, u64::MAX - 1, u64::MAX];

/// `cover!(cond, "label")`: a reachability witness behind an assumption / inside a match arm.
/// Under Kani it is a cover property (the driver requires SATISFIED); natively it is a no-op.
#[macro_export]
macro_rules! verif_cover {
    ($cond:expr, $label:literal) => {{
        #[cfg(kani)]
        kani::cover!($cond, $label);
        #[cfg(not(kani))]
        let _ = &$cond;
    }};
}
