// Spec functions written from the *property statements* (DESIGN.md §2), shared by the overlays.
// Loop-free, over i128 / bit masks. Appended to lib.rs as `pub(crate) mod verif_spec`.
#![allow(dead_code)]
use crate::ir::FieldValue;
use crate::verif_vk as vk;
use std::cmp::Ordering;

/// Numeric value of an integer field value ("integers compare by numeric value regardless of
/// signed/unsigned representation").
pub fn num(v: &FieldValue) -> Option<i128> {
    match v {
        FieldValue::Int64(i) => Some(*i as i128),
        FieldValue::Uint64(u) => Some(*u as i128),
        _ => None,
    }
}

/// Kind rank: the declared variant order with the two integer representations merged.
pub fn rank(v: &FieldValue) -> u8 {
    match v {
        FieldValue::Null => 0,
        FieldValue::Int64(_) | FieldValue::Uint64(_) => 1,
        FieldValue::Float64(_) => 3,
        FieldValue::String(_) => 4,
        FieldValue::Boolean(_) => 5,
        FieldValue::Enum(_) => 6,
        FieldValue::List(_) => 7,
    }
}

/// The order the statement of C08 describes, on scalar values without heap payload:
/// compare kinds first, then the mathematical value inside a kind.
pub fn spec_cmp_scalar(a: &FieldValue, b: &FieldValue) -> Ordering {
    let (ra, rb) = (rank(a), rank(b));
    if ra != rb {
        return ra.cmp(&rb);
    }
    match (a, b) {
        (FieldValue::Null, FieldValue::Null) => Ordering::Equal,
        (FieldValue::Boolean(x), FieldValue::Boolean(y)) => (*x as u8).cmp(&(*y as u8)),
        (FieldValue::Float64(x), FieldValue::Float64(y)) => {
            // finite floats: IEEE order is total except that -0.0 == +0.0
            if x < y {
                Ordering::Less
            } else if x > y {
                Ordering::Greater
            } else {
                Ordering::Equal
            }
        }
        _ => match (num(a), num(b)) {
            (Some(x), Some(y)) => x.cmp(&y),
            _ => unreachable!("spec_cmp_scalar used on a heap value"),
        },
    }
}

/// Scalar value kinds used to path-split harnesses: the variant is chosen by a concrete `match`
/// arm, the payload is symbolic over its whole machine domain.
pub const K_NULL: u8 = 0;
pub const K_I64: u8 = 1;
pub const K_U64: u8 = 2;
pub const K_F64: u8 = 3;
pub const K_BOOL: u8 = 4;

pub fn mk_scalar(kind: u8) -> FieldValue {
    match kind {
        K_NULL => FieldValue::Null,
        K_I64 => FieldValue::Int64(vk::any_i64()),
        K_U64 => FieldValue::Uint64(vk::any_u64()),
        K_F64 => {
            let f = vk::any_f64();
            vk::assume(f.is_finite());
            FieldValue::Float64(f)
        }
        _ => FieldValue::Boolean(vk::any_bool()),
    }
}

pub fn mk_int_or_null(kind: u8) -> FieldValue {
    match kind {
        K_NULL => FieldValue::Null,
        K_I64 => FieldValue::Int64(vk::any_i64()),
        _ => FieldValue::Uint64(vk::any_u64()),
    }
}

/// Run `$body` once per scalar kind with `$k` bound to a *constant* kind on each path.
#[macro_export]
macro_rules! verif_split5 {
    ($sel:expr, $k:ident => $body:block) => {
        match $sel {
            0 => { let $k: u8 = 0; $body }
            1 => { let $k: u8 = 1; $body }
            2 => { let $k: u8 = 2; $body }
            3 => { let $k: u8 = 3; $body }
            _ => { let $k: u8 = 4; $body }
        }
    };
}
#[macro_export]
macro_rules! verif_split3 {
    ($sel:expr, $k:ident => $body:block) => {
        match $sel {
            0 => { let $k: u8 = 0; $body }
            1 => { let $k: u8 = 1; $body }
            _ => { let $k: u8 = 2; $body }
        }
    };
}

// ---- Type / Modifiers closed forms (C12, C13, C16, C17) -------------------------------------
pub const LIST_BITS: u64 = 0xAAAA_AAAA_AAAA_AAAA;
pub const NN_BITS: u64 = 0x5555_5555_5555_5555;

/// `wf(mask)`: for some depth d <= 30 the list bits are exactly bits 1,3,..,2d-1 and non-null bits
/// occur only at positions 0,2,..,2d.
pub fn wf_mask(mask: u64) -> bool {
    let l = (mask & LIST_BITS) >> 1; // list bit of level i now at position 2i
    let c = l | (l << 1);            // both bits of every list level
    // contiguous from bit 0: c+1 is a power of two
    (c & c.wrapping_add(1)) == 0 && (mask & !((c << 1) | 1)) == 0 && mask < (1u64 << 61)
}

/// list depth of a wf mask
pub fn depth_of(mask: u64) -> u32 {
    (mask & LIST_BITS).count_ones()
}
