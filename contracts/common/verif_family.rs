// Enumerated family of query trees over the numbers schema, their GraphQL rendering, and the
// declarative row semantics used as SPEC function (C01); shared with the C02/C03 relation grids.
#![allow(dead_code)]
#[cfg(all(test, verif_replay))]
pub use imp::*;

#[cfg(all(test, verif_replay))]
mod imp {
    use crate::ir::FieldValue;
    use crate::verif_corpus::{run_numbers, Row, Run};
    use crate::verif_vk as vk;
    use std::collections::{BTreeMap, BTreeSet};
    use std::sync::Arc;

    #[derive(Clone, Copy, PartialEq, Debug)]
    pub enum Scope { Plain, Optional, Fold, FoldCountGe(i64), FoldCountOut, Recurse(usize) }
    #[derive(Clone, Copy, PartialEq, Debug)]
    pub enum Edge { Pred, Succ, Mult(i64) }
    #[derive(Clone, Copy, PartialEq, Debug)]
    pub enum Filt { None, Gt(i64), NeRoot, LeRoot }
    #[derive(Clone, Debug)]
    pub struct Node { pub edge: Edge, pub scope: Scope, pub filter: Filt, pub out: bool, pub children: Vec<Node> }

    // ---------------------------------------------------------------- dataset (independent of the adapter)
    pub fn is_prime(n: i64) -> bool { n >= 2 && (2..n).take_while(|d| d * d <= n).all(|d| n % d != 0) }
    pub fn neighbors(v: i64, e: Edge) -> Vec<i64> {
        match e {
            Edge::Pred => if v > 0 { vec![v - 1] } else { vec![] },
            Edge::Succ => vec![v + 1],
            Edge::Mult(k) => if v < 2 { vec![] } else if is_prime(v) { (2..=k).map(|m| v * m).collect() } else { (1..=k).map(|m| v * m).collect() },
        }
    }

    // ---------------------------------------------------------------- rendering
    pub fn render(nodes: &[Node], idx: &mut usize, out: &mut String) {
        for n in nodes {
            let my = *idx; *idx += 1;
            let edge = match n.edge { Edge::Pred => "predecessor".to_string(), Edge::Succ => "successor".to_string(), Edge::Mult(k) => format!("multiple(max: {k})") };
            let dir = match n.scope {
                Scope::Plain => String::new(), Scope::Optional => "@optional".into(), Scope::Fold => "@fold".into(),
                Scope::FoldCountGe(k) => format!(r#"@fold @transform(op: "count") @filter(op: ">=", value: ["$k{k}"])"#),
                Scope::FoldCountOut => format!(r#"@fold @transform(op: "count") @output(name: "c{my}")"#),
                Scope::Recurse(d) => format!("@recurse(depth: {d})"),
            };
            let filt = match n.filter { Filt::None => String::new(), Filt::Gt(x) => format!(r#"@filter(op: ">", value: ["$x{x}"])"#), Filt::NeRoot => r#"@filter(op: "!=", value: ["%root"])"#.into(), Filt::LeRoot => r#"@filter(op: "<=", value: ["%root"])"#.into() };
            let o = if n.out { format!("@output(name: \"o{my}\")") } else { String::new() };
            out.push_str(&format!("{edge} {dir} {{ value {o} {filt} "));
            render(&n.children, idx, out);
            out.push_str("} ");
        }
    }
    pub fn query_text(nodes: &[Node], lo: i64, hi: i64) -> String {
        let mut body = String::new();
        let mut idx = 0;
        render(nodes, &mut idx, &mut body);
        let tag = if body.contains("%root") { "@tag(name: \"root\")" } else { "" };
        format!("{{ Number(min: {lo}, max: {hi}) {{ value @output(name: \"root\") {tag} {body}}} }}")
    }

    // ---------------------------------------------------------------- SPEC: row semantics
    pub type R = BTreeMap<String, FieldValue>;
    pub fn ival(v: i64) -> FieldValue { FieldValue::Int64(v) }
    pub fn passes(f: Filt, v: Option<i64>, root: i64) -> bool {
        let Some(v) = v else { return true }; // filters inside a missing optional scope pass
        match f { Filt::None => true, Filt::Gt(x) => v > x, Filt::NeRoot => v != root, Filt::LeRoot => v <= root }
    }
    /// all output names of a subtree, every value null (what a missing optional scope produces);
    /// `in_fold`: names produced by a fold under a missing scope are null too, not empty lists.
    pub fn null_names(nodes: &[Node], idx: &mut usize, out: &mut R) {
        for n in nodes {
            let my = *idx; *idx += 1;
            if n.out { out.insert(format!("o{my}"), FieldValue::Null); }
            if n.scope == Scope::FoldCountOut { out.insert(format!("c{my}"), FieldValue::Null); }
            null_names(&n.children, idx, out);
        }
    }
    pub fn count_nodes(nodes: &[Node]) -> usize { nodes.iter().map(|n| 1 + count_nodes(&n.children)).sum() }

    /// Rows contributed by the sibling edges `nodes` (numbered from `base`) expanded from vertex `v`
    /// (None = inside a missing optional scope). Cartesian product of the siblings, in order.
    pub fn rows_of_edges(nodes: &[Node], base: usize, v: Option<i64>, root: i64) -> Vec<R> {
        let mut acc: Vec<R> = vec![R::new()];
        let mut idx = base;
        for n in nodes {
            let my = idx;
            let size = 1 + count_nodes(&n.children);
            let sub = rows_of_edge(n, my, v, root);
            let mut next = Vec::new();
            for a in &acc { for s in &sub { let mut r = a.clone(); r.extend(s.clone()); next.push(r); } }
            acc = next;
            idx += size;
        }
        acc
    }
    /// rows of the subtree rooted at the vertex `w` reached through node `n` (own output + filter + children)
    pub fn rows_at_vertex(n: &Node, my: usize, w: Option<i64>, root: i64) -> Vec<R> {
        if !passes(n.filter, w, root) { return vec![]; }
        let mut base = R::new();
        if n.out { base.insert(format!("o{my}"), w.map(ival).unwrap_or(FieldValue::Null)); }
        rows_of_edges(&n.children, my + 1, w, root).into_iter().map(|mut r| { r.extend(base.clone()); r }).collect()
    }
    pub fn lists_from(rows: &[R], names: &R) -> R {
        // one aligned list per output of the fold's contents
        names.keys().map(|k| (k.clone(), FieldValue::List(rows.iter().map(|r| r[k].clone()).collect::<Vec<_>>().into()))).collect()
    }
    pub fn rows_of_edge(n: &Node, my: usize, v: Option<i64>, root: i64) -> Vec<R> {
        let mut names = R::new();
        { let mut i = my; null_names(std::slice::from_ref(n), &mut i, &mut names); }
        match n.scope {
            Scope::Plain | Scope::Optional => {
                let Some(v) = v else { return rows_at_vertex(n, my, None, root); }; // still inside the missing scope
                let ns = neighbors(v, n.edge);
                if ns.is_empty() { return if n.scope == Scope::Optional { rows_at_vertex(n, my, None, root) } else { vec![] }; }
                ns.into_iter().flat_map(|w| rows_at_vertex(n, my, Some(w), root)).collect()
            }
            Scope::Recurse(d) => {
                let Some(v) = v else { return rows_at_vertex(n, my, None, root); };
                // every vertex reachable in 0..=d hops, one row per path
                let mut frontier = vec![v];
                let mut all = vec![v];
                for _ in 0..d { frontier = frontier.iter().flat_map(|x| neighbors(*x, n.edge)).collect(); all.extend(frontier.iter().cloned()); }
                all.into_iter().flat_map(|w| rows_at_vertex(n, my, Some(w), root)).collect()
            }
            Scope::Fold | Scope::FoldCountGe(_) | Scope::FoldCountOut => {
                let Some(v) = v else { return vec![names]; }; // a fold inside a missing optional: null, not empty
                let elems: Vec<R> = neighbors(v, n.edge).into_iter().flat_map(|w| rows_at_vertex(n, my, Some(w), root)).collect();
                if let Scope::FoldCountGe(k) = n.scope { if (elems.len() as i64) < k { return vec![]; } }
                let mut content_names = names.clone();
                content_names.remove(&format!("c{my}"));
                let mut r = lists_from(&elems, &content_names);
                if n.scope == Scope::FoldCountOut { r.insert(format!("c{my}"), FieldValue::Uint64(elems.len() as u64)); }
                vec![r]
            }
        }
    }
    pub fn spec_rows(nodes: &[Node], lo: i64, hi: i64) -> Vec<R> {
        (lo..=hi).flat_map(|root| rows_of_edges(nodes, 0, Some(root), root).into_iter().map(move |mut r| { r.insert("root".into(), ival(root)); r })).collect()
    }

    // ---------------------------------------------------------------- enumeration of query trees
    pub fn leaf_variants() -> Vec<Node> {
        let mut v = Vec::new();
        for edge in [Edge::Pred, Edge::Succ, Edge::Mult(3)] {
            for scope in [Scope::Plain, Scope::Optional, Scope::Fold, Scope::FoldCountGe(1), Scope::FoldCountGe(2), Scope::FoldCountOut, Scope::Recurse(2)] {
                if matches!(scope, Scope::Recurse(_)) && matches!(edge, Edge::Mult(_)) { continue; } // multiple() is not recursable
                for filter in [Filt::None, Filt::Gt(2), Filt::NeRoot, Filt::LeRoot] { v.push(Node { edge, scope, filter, out: true, children: vec![] }); }
            }
        }
        v
    }
    pub fn key(r: &R) -> String { format!("{r:?}") }

    pub fn check_family(name: &str, trees: Vec<Vec<Node>>, lo: i64, hi: i64) {
        let mut n = 0u64;
        let mut failures = BTreeSet::new();
        for nodes in trees {
            let q = query_text(&nodes, lo, hi);
            vk::grid_case(format_args!("{}", q));
            let args = [("x2", FieldValue::Int64(2)), ("k1", FieldValue::Int64(1)), ("k2", FieldValue::Int64(2))];
            let used: Vec<(&str, FieldValue)> = args.iter().filter(|(k, _)| q.contains(&format!("${k}"))).cloned().collect();
            match run_numbers(&q, &used, 100_000) {
                Run::Rows(_, rows) => {
                    let mut got: Vec<String> = rows.iter().map(|r: &Row| key(&r.iter().map(|(k, v)| (k.to_string(), v.clone())).collect::<R>())).collect();
                    let mut want: Vec<String> = spec_rows(&nodes, lo, hi).iter().map(key).collect();
                    got.sort(); want.sort();
                    if got != want {
                        let shape: Vec<String> = nodes.iter().map(|n| format!("{:?}", n)).collect();
                        failures.insert(format!("rows differ from the declarative semantics ({} rows, spec {}) for {}", got.len(), want.len(), shape.join(" + ").replace("children: []", "")));
                    }
                }
                Run::Panic(m) => { failures.insert(format!("panic({}) for {}", m.lines().next().unwrap_or(""), q)); }
                Run::FrontendError(e) => { failures.insert(format!("harness query rejected ({e}): {q}")); }
                Run::ArgumentError(e) => { failures.insert(format!("harness arguments rejected ({e}): {q}")); }
            }
            n += 1;
        }
        vk::grid_done(name, n);
        if !failures.is_empty() { panic!("engine differs from the declarative semantics: {{{}}}", failures.into_iter().take(8).collect::<Vec<_>>().join("; ")); }
    }


    pub fn family_depth1_and_pairs() -> Vec<Vec<Node>> {
        let leaves = leaf_variants();
        let mut trees: Vec<Vec<Node>> = leaves.iter().map(|l| vec![l.clone()]).collect();
        let subset: Vec<Node> = leaves.iter().enumerate().filter(|(i, _)| i % 4 == 0 || i % 7 == 3).map(|(_, l)| l.clone()).collect();
        for a in &subset { for b in &subset { trees.push(vec![a.clone(), b.clone()]); } }
        trees
    }
    pub fn family_args(q: &str) -> Vec<(&'static str, FieldValue)> {
        [("x2", FieldValue::Int64(2)), ("k1", FieldValue::Int64(1)), ("k2", FieldValue::Int64(2))].into_iter().filter(|(k, _)| q.contains(&format!("${k}"))).collect()
    }
}
