// Verus twin of the Kani contracts on `Modifiers` (ir/types/base.rs) and lattice lemmas over the
// closed forms in bit-vector mode. Bodies and constants are extracted byte-for-byte on every run.
use vstd::prelude::*;
verus! {

pub struct Modifiers {
    pub mask: u64,
}

// ASSUMED std contract (trusted): bool::then_some
pub assume_specification<T>[ bool::then_some ](b: bool, t: T) -> (r: Option<T>)
    ensures r == (if b { Some(t) } else { None::<T> }),
;

impl Modifiers {
    {{ITEM trustfall_core/src/ir/types/base.rs const NON_NULLABLE_MASK: u64}}
    {{ITEM trustfall_core/src/ir/types/base.rs const LIST_MASK: u64}}
    {{ITEM trustfall_core/src/ir/types/base.rs const MAX_LIST_DEPTH: u64}}
    {{ITEM trustfall_core/src/ir/types/base.rs const MAX_LIST_DEPTH_MASK: u64}}

    //@orig trustfall_core/src/ir/types/base.rs :: fn new(nullable: bool) -> Self
    fn new(nullable: bool) -> (r: Self)
        ensures r.mask == (if nullable { 0u64 } else { 1u64 })
    {{BODY trustfall_core/src/ir/types/base.rs new}}

    //@orig trustfall_core/src/ir/types/base.rs :: fn nullable(&self) -> bool
    fn nullable(&self) -> (r: bool)
        ensures r == ((self.mask & 1) == 0)
    {{BODY trustfall_core/src/ir/types/base.rs nullable}}

    //@orig trustfall_core/src/ir/types/base.rs :: fn is_list(&self) -> bool
    fn is_list(&self) -> (r: bool)
        ensures r == ((self.mask & 2) != 0)
    {{BODY trustfall_core/src/ir/types/base.rs is_list}}

    //@orig trustfall_core/src/ir/types/base.rs :: fn as_list(&self) -> Option<Modifiers>
    fn as_list(&self) -> (r: Option<Modifiers>)
        ensures
            (self.mask & 2) != 0 ==> r.is_some() && r.unwrap().mask == self.mask >> 2,
            (self.mask & 2) == 0 ==> r.is_none(),
    {{BODY trustfall_core/src/ir/types/base.rs as_list}}

    //@orig trustfall_core/src/ir/types/base.rs :: fn at_max_list_depth(&self) -> bool
    fn at_max_list_depth(&self) -> (r: bool)
        ensures r == ((self.mask & Modifiers::MAX_LIST_DEPTH_MASK) == Modifiers::MAX_LIST_DEPTH_MASK)
    {{BODY trustfall_core/src/ir/types/base.rs at_max_list_depth}}
}

/// the constant is the list bit of level 30, and testing it is testing bit 59 (closed form used by the Kani contract)
proof fn lemma_max_depth_mask(m: u64)
    ensures
        Modifiers::MAX_LIST_DEPTH_MASK == 0x0800_0000_0000_0000u64,
        ((m & 0x0800_0000_0000_0000u64) == 0x0800_0000_0000_0000u64) == (((m >> 59) & 1) == 1),
{
    assert(Modifiers::MAX_LIST_DEPTH_MASK == 0x0800_0000_0000_0000u64) by(compute_only);
    assert(((m & 0x0800_0000_0000_0000u64) == 0x0800_0000_0000_0000u64) == (((m >> 59) & 1) == 1)) by(bit_vector);
}

// ---- lattice laws of the closed forms (C17 step 2), all 64-bit masks, bit-vector mode ------------
pub open spec fn list_bits(m: u64) -> u64 { m & 0xAAAA_AAAA_AAAA_AAAAu64 }
pub open spec fn nn_bits(m: u64) -> u64 { m & 0x5555_5555_5555_5555u64 }
/// `sub <= parent` in the scalar subtype order (same list shape, at least as non-null)
pub open spec fn subtype(parent: u64, sub: u64) -> bool {
    list_bits(parent) == list_bits(sub) && (nn_bits(parent) & !nn_bits(sub)) == 0
}

proof fn lemma_intersection_is_glb(a: u64, b: u64, c: u64)
    requires list_bits(a) == list_bits(b)
    ensures
        (a | b) == (b | a),
        (a | a) == a,
        subtype(a, a | b),
        subtype(b, a | b),
        subtype(a, c) && subtype(b, c) ==> subtype(a | b, c),
{
    assert((a | b) == (b | a)) by(bit_vector);
    assert((a | a) == a) by(bit_vector);
    assert((a & 0xAAAA_AAAA_AAAA_AAAAu64) == (b & 0xAAAA_AAAA_AAAA_AAAAu64) ==> (a & 0xAAAA_AAAA_AAAA_AAAAu64) == ((a | b) & 0xAAAA_AAAA_AAAA_AAAAu64)
           && ((a & 0x5555_5555_5555_5555u64) & !((a | b) & 0x5555_5555_5555_5555u64)) == 0
           && (b & 0xAAAA_AAAA_AAAA_AAAAu64) == ((a | b) & 0xAAAA_AAAA_AAAA_AAAAu64)
           && ((b & 0x5555_5555_5555_5555u64) & !((a | b) & 0x5555_5555_5555_5555u64)) == 0) by(bit_vector);
    assert(((a & 0xAAAA_AAAA_AAAA_AAAAu64) == (c & 0xAAAA_AAAA_AAAA_AAAAu64) && ((a & 0x5555_5555_5555_5555u64) & !(c & 0x5555_5555_5555_5555u64)) == 0
            && (b & 0xAAAA_AAAA_AAAA_AAAAu64) == (c & 0xAAAA_AAAA_AAAA_AAAAu64) && ((b & 0x5555_5555_5555_5555u64) & !(c & 0x5555_5555_5555_5555u64)) == 0)
           ==> (((a | b) & 0xAAAA_AAAA_AAAA_AAAAu64) == (c & 0xAAAA_AAAA_AAAA_AAAAu64) && (((a | b) & 0x5555_5555_5555_5555u64) & !(c & 0x5555_5555_5555_5555u64)) == 0)) by(bit_vector);
}

proof fn lemma_subtype_partial_order(a: u64, b: u64, c: u64)
    ensures
        subtype(a, a),
        subtype(a, b) && subtype(b, a) ==> a == b || (a & !0x5555_5555_5555_5555u64 & !0xAAAA_AAAA_AAAA_AAAAu64) != (b & !0x5555_5555_5555_5555u64 & !0xAAAA_AAAA_AAAA_AAAAu64),
        subtype(a, b) && subtype(b, c) ==> subtype(a, c),
{
    assert(((a & 0x5555_5555_5555_5555u64) & !(a & 0x5555_5555_5555_5555u64)) == 0) by(bit_vector);
    assert(((a & 0xAAAA_AAAA_AAAA_AAAAu64) == (b & 0xAAAA_AAAA_AAAA_AAAAu64) && ((a & 0x5555_5555_5555_5555u64) & !(b & 0x5555_5555_5555_5555u64)) == 0
            && ((b & 0x5555_5555_5555_5555u64) & !(a & 0x5555_5555_5555_5555u64)) == 0) ==> a == b) by(bit_vector);
    assert(((a & 0xAAAA_AAAA_AAAA_AAAAu64) == (b & 0xAAAA_AAAA_AAAA_AAAAu64) && ((a & 0x5555_5555_5555_5555u64) & !(b & 0x5555_5555_5555_5555u64)) == 0
            && (b & 0xAAAA_AAAA_AAAA_AAAAu64) == (c & 0xAAAA_AAAA_AAAA_AAAAu64) && ((b & 0x5555_5555_5555_5555u64) & !(c & 0x5555_5555_5555_5555u64)) == 0)
           ==> ((a & 0xAAAA_AAAA_AAAA_AAAAu64) == (c & 0xAAAA_AAAA_AAAA_AAAAu64) && ((a & 0x5555_5555_5555_5555u64) & !(c & 0x5555_5555_5555_5555u64)) == 0)) by(bit_vector);
}

} // verus!
fn main() {}
