// @target trustfall_core/src/ir/types/base.rs
// @module verif_c17
// @fn Modifiers::new
// @fn Modifiers::nullable
// @fn Modifiers::is_list
// @fn Modifiers::as_list
// @fn Modifiers::at_max_list_depth
// @fn Type::new_named_type
// @fn Type::new_list_type
// @fn Type::with_nullability
// @fn Type::intersect
// @fn Type::intersect_impl
// @fn Type::equal_ignoring_nullability
// @fn Type::is_scalar_only_subtype
// @fn Type::is_valid_value
//
// Contract-mode postconditions inserted on the real Modifiers methods:
// @contract fn nullable(&self) -> bool {
// | #[cfg_attr(kani, kani::ensures(|r: &bool| *r == ((self.mask & 1) == 0)))]
// @contract fn is_list(&self) -> bool {
// | #[cfg_attr(kani, kani::ensures(|r: &bool| *r == ((self.mask & 2) != 0)))]
// @contract fn at_max_list_depth(&self) -> bool {
// | #[cfg_attr(kani, kani::ensures(|r: &bool| *r == (((self.mask >> 59) & 1) == 1)))]
use super::*;
use super::{Modifiers, Type};
use crate::verif_spec::{depth_of, wf_mask, LIST_BITS, NN_BITS};
use crate::verif_vk as vk;

fn any_wf_mask(max_depth: u32) -> u64 {
    let m = vk::any_u64();
    vk::assume(wf_mask(m) && depth_of(m) <= max_depth);
    m
}
fn ty(base: &'static str, mask: u64) -> Type {
    Type { base: Arc::from(base), modifiers: Modifiers { mask } }
}

// ---- closed forms (the spec, from the statement: "greatest common subtype", "none when base
//      types or list depths differ", scalar subtype = same shape and at least as non-null) -------
fn spec_intersect(same_base: bool, a: u64, b: u64) -> Option<u64> {
    if same_base && (a & LIST_BITS) == (b & LIST_BITS) { Some(a | b) } else { None }
}
/// `parent.is_scalar_only_subtype(sub)`: sub <= parent
fn spec_subtype(same_base: bool, parent: u64, sub: u64) -> bool {
    same_base && (parent & LIST_BITS) == (sub & LIST_BITS) && ((parent & NN_BITS) & !(sub & NN_BITS)) == 0
}
fn spec_eq_ign(same_base: bool, a: u64, b: u64) -> bool {
    same_base && (a & LIST_BITS) == (b & LIST_BITS)
}

// @harness c17_contract_modifiers_nullable tier=quick kind=complete
// @ob Modifiers::nullable() == (mask bit 0 clear), all 2^64 masks [kani::ensures, proof_for_contract]
#[kani::proof_for_contract(Modifiers::nullable)]
pub(crate) fn c17_contract_modifiers_nullable() {
    let m = Modifiers { mask: vk::any_u64() };
    let r = m.nullable();
    assert!(r == ((m.mask & 1) == 0), "nullable closed form");
}
// @harness c17_contract_modifiers_is_list tier=quick kind=complete
// @ob Modifiers::is_list() == (mask bit 1 set), all 2^64 masks [kani::ensures, proof_for_contract]
#[kani::proof_for_contract(Modifiers::is_list)]
pub(crate) fn c17_contract_modifiers_is_list() {
    let m = Modifiers { mask: vk::any_u64() };
    let r = m.is_list();
    assert!(r == ((m.mask & 2) != 0), "is_list closed form");
}
// @harness c17_contract_modifiers_max_depth tier=quick kind=complete
// @ob Modifiers::at_max_list_depth() == (list bit of level 30 set), all masks [kani::ensures, proof_for_contract]
#[kani::proof_for_contract(Modifiers::at_max_list_depth)]
pub(crate) fn c17_contract_modifiers_max_depth() {
    let m = Modifiers { mask: vk::any_u64() };
    let r = m.at_max_list_depth();
    assert!(r == (((m.mask >> 59) & 1) == 1), "at_max_list_depth closed form");
}

// @harness c17_constructors tier=quick kind=complete
// @ob Modifiers::new / as_list and Type::new_named_type / new_list_type / with_nullability / nullable / is_list / as_list equal their closed forms on every well-formed mask (all depths 0..30) and preserve well-formedness; as_list(new_list_type(t, n)) == t
#[kani::proof]
#[kani::unwind(3)]
pub(crate) fn c17_constructors() {
    let m = any_wf_mask(30);
    let n = vk::any_bool();
    assert!(Modifiers::new(n).mask == (!n) as u64 && wf_mask(Modifiers::new(n).mask), "Modifiers::new");
    let mo = Modifiers { mask: m };
    match mo.as_list() {
        Some(inner) => assert!((m & 2) != 0 && inner.mask == m >> 2 && wf_mask(inner.mask) && depth_of(inner.mask) + 1 == depth_of(m), "Modifiers::as_list strips one level"),
        None => assert!((m & 2) == 0 && depth_of(m) == 0, "as_list is None exactly for non-lists"),
    }
    let t = ty("A", m);
    assert!(t.nullable() == ((m & 1) == 0) && t.is_list() == ((m & 2) != 0), "Type::nullable/is_list");
    let w = t.with_nullability(n);
    assert!(w.modifiers.mask == ((m & !1) | (!n) as u64) && wf_mask(w.modifiers.mask), "with_nullability only touches the outermost bit");
    let named = Type::new_named_type("A", n);
    assert!(named.modifiers.mask == (!n) as u64, "new_named_type");
    if depth_of(m) < 30 {
        let l = Type::new_list_type(ty("A", m), n);
        assert!(l.modifiers.mask == ((m << 2) | 2 | (!n) as u64), "new_list_type adds one level");
        assert!(wf_mask(l.modifiers.mask) && depth_of(l.modifiers.mask) == depth_of(m) + 1, "new_list_type preserves wf");
        let back = l.as_list().unwrap();
        assert!(back.modifiers.mask == m, "as_list inverts new_list_type");
        core::mem::forget((l, back));
    }
    verif_cover!(depth_of(m) == 30, "max depth reachable");
    core::mem::forget((t, w, named));
}

// ---- code == closed form (recursive functions; bound = list depth of the type) -------------------
fn code_vs_closed_form(max_depth: u32) {
    let (ma, mb) = (any_wf_mask(max_depth), any_wf_mask(max_depth));
    let same = vk::any_bool();
    let a = ty("A", ma);
    let b = if same { ty("A", mb) } else { ty("B", mb) };
    verif_cover!(same && (ma & LIST_BITS) == (mb & LIST_BITS) && ma != mb, "same shape, different nullability");
    verif_cover!(same && (ma & LIST_BITS) != (mb & LIST_BITS), "different depth");
    let r = a.intersect(&b);
    match (&r, spec_intersect(same, ma, mb)) {
        (Some(t), Some(m)) => assert!(t.modifiers.mask == m && t.base_type() == "A", "intersect == closed form (mask a|b)"),
        (None, None) => {}
        _ => assert!(false, "intersect is None exactly when bases or list depths differ"),
    }
    assert!(a.is_scalar_only_subtype(&b) == spec_subtype(same, ma, mb), "is_scalar_only_subtype == closed form");
    assert!(a.equal_ignoring_nullability(&b) == spec_eq_ign(same, ma, mb), "equal_ignoring_nullability == closed form");
    core::mem::forget((a, b, r));
}

// @harness c17_code_closed_form_d3 tier=quick kind=bounded bound="list depth <= 3 (the property's quantifier); all nullability combinations" timeout=900
// @ob intersect / is_scalar_only_subtype / equal_ignoring_nullability of the real Type == closed forms over the masks, bases {same, different}
#[kani::proof]
#[kani::unwind(6)]
pub(crate) fn c17_code_closed_form_d3() {
    code_vs_closed_form(3);
}

fn pair_d30() -> (u64, u64, bool, Type, Type) {
    let (ma, mb) = (any_wf_mask(30), any_wf_mask(30));
    let same = vk::any_bool();
    let a = ty("A", ma);
    let b = if same { ty("A", mb) } else { ty("B", mb) };
    (ma, mb, same, a, b)
}
// @harness c17_intersect_closed_form_d30 tier=thorough kind=complete timeout=5400 heavy=1
// @ob Type::intersect == closed form for every pair of well-formed masks of the type (depth <= 30 = the representation's whole domain)
#[kani::proof]
#[kani::unwind(33)]
pub(crate) fn c17_intersect_closed_form_d30() {
    let (ma, mb, same, a, b) = pair_d30();
    let r = a.intersect(&b);
    match (&r, spec_intersect(same, ma, mb)) {
        (Some(t), Some(m)) => assert!(t.modifiers.mask == m, "intersect == closed form (mask a|b)"),
        (None, None) => {}
        _ => assert!(false, "intersect is None exactly when bases or list depths differ"),
    }
    core::mem::forget((a, b, r));
}
// @harness c17_subtype_closed_form_d30 tier=thorough kind=complete timeout=5400 heavy=1
// @ob Type::is_scalar_only_subtype == closed form for every pair of well-formed masks (depth <= 30)
#[kani::proof]
#[kani::unwind(33)]
pub(crate) fn c17_subtype_closed_form_d30() {
    let (ma, mb, same, a, b) = pair_d30();
    assert!(a.is_scalar_only_subtype(&b) == spec_subtype(same, ma, mb), "is_scalar_only_subtype == closed form");
    core::mem::forget((a, b));
}
// @harness c17_eq_ign_closed_form_d30 tier=thorough kind=complete timeout=5400 heavy=1
// @ob Type::equal_ignoring_nullability == closed form for every pair of well-formed masks (depth <= 30)
#[kani::proof]
#[kani::unwind(33)]
pub(crate) fn c17_eq_ign_closed_form_d30() {
    let (ma, mb, same, a, b) = pair_d30();
    assert!(a.equal_ignoring_nullability(&b) == spec_eq_ign(same, ma, mb), "equal_ignoring_nullability == closed form");
    core::mem::forget((a, b));
}

// ---- lattice laws over the closed forms (pure u64; complete) -------------------------------------
// @harness c17_lattice_laws tier=quick kind=complete
// @ob over all well-formed masks a,b,c (depth <= 30): intersection commutative, idempotent, associative, a subtype of both inputs and the greatest such; None exactly when shapes differ; subtype reflexive/antisymmetric/transitive; equal_ignoring_nullability reflexive/symmetric/transitive
#[kani::proof]
pub(crate) fn c17_lattice_laws() {
    let (a, b, c) = (any_wf_mask(30), any_wf_mask(30), any_wf_mask(30));
    let i = |x: u64, y: u64| spec_intersect(true, x, y);
    let sub = |parent: u64, s: u64| spec_subtype(true, parent, s);
    assert!(i(a, b) == i(b, a), "commutative");
    assert!(i(a, a) == Some(a), "idempotent");
    if let Some(ab) = i(a, b) {
        assert!(wf_mask(ab), "intersection is well-formed");
        assert!(sub(a, ab) && sub(b, ab), "intersection is a subtype of both inputs");
        if sub(a, c) && sub(b, c) {
            assert!(sub(ab, c), "intersection is the greatest common subtype");
        }
        // associativity
        match (i(ab, c), i(b, c)) {
            (Some(x), Some(bc)) => assert!(i(a, bc) == Some(x), "associative"),
            (None, None) => {}
            (None, Some(bc)) => assert!(i(a, bc).is_none(), "associative (none)"),
            (Some(_), None) => assert!(false, "associative (shape)"),
        }
    } else {
        assert!((a & LIST_BITS) != (b & LIST_BITS), "None only when list depths differ (same base)");
        assert!(!sub(a, b) && !sub(b, a), "unrelated types have no subtype relation");
    }
    assert!(spec_intersect(false, a, b).is_none(), "different bases never intersect");
    assert!(sub(a, a), "subtype reflexive");
    assert!(!(sub(a, b) && sub(b, a)) || a == b, "subtype antisymmetric");
    assert!(!(sub(a, b) && sub(b, c)) || sub(a, c), "subtype transitive");
    let e = |x: u64, y: u64| spec_eq_ign(true, x, y);
    assert!(e(a, a) && (e(a, b) == e(b, a)) && (!(e(a, b) && e(b, c)) || e(a, c)), "equal_ignoring_nullability is an equivalence");
}

// ---- validity is monotone along the subtype order --------------------------------------------
// @harness c17_valid_monotone_scalars tier=quick kind=complete timeout=900
// @ob for scalar values v (null, Int64, Uint64, finite Float64, Boolean) and all types sub <= sup over bases {Int, Float} with masks of depth <= 3: sub.is_valid_value(v) => sup.is_valid_value(v)
#[kani::proof]
#[kani::unwind(6)]
pub(crate) fn c17_valid_monotone_scalars() {
    let (msup, msub) = (any_wf_mask(3), any_wf_mask(3));
    let base_int = vk::any_bool();
    vk::assume(spec_subtype(true, msup, msub));
    let (sup, sub) = if base_int { (ty("Int", msup), ty("Int", msub)) } else { (ty("Float", msup), ty("Float", msub)) };
    let s = vk::any_u8();
    verif_split5!(s, k => {
        let v = crate::verif_spec::mk_scalar(k);
        verif_cover!(sub.is_valid_value(&v), "valid for the subtype");
        assert!(!sub.is_valid_value(&v) || sup.is_valid_value(&v), "valid for a type => valid for every supertype");
        core::mem::forget(v);
    });
    core::mem::forget((sup, sub));
}

// @harness c17_valid_monotone_lists tier=thorough heavy=1 kind=bounded bound="types of depth <= 2; list values of length <= 2, nesting <= 2, elements null/Int64" timeout=900 unwindset="!memcmp.0=8"
// @ob for list values [], [x], [x, y], [[x]], [[x], null] with x, y in {null, Int64}: sub.is_valid_value(v) => sup.is_valid_value(v) for all sub <= sup
#[kani::proof]
#[kani::unwind(3)]
pub(crate) fn c17_valid_monotone_lists() {
    let (msup, msub) = (any_wf_mask(2), any_wf_mask(2));
    vk::assume(spec_subtype(true, msup, msub));
    let (sup, sub) = (ty("Int", msup), ty("Int", msub));
    fn chk(sub: &Type, sup: &Type, v: FieldValue) {
        verif_cover!(sub.is_valid_value(&v), "valid for the subtype");
        assert!(!sub.is_valid_value(&v) || sup.is_valid_value(&v), "valid list for a type => valid for every supertype");
        core::mem::forget(v);
    }
    fn l1(a: FieldValue) -> FieldValue { FieldValue::List(Arc::new([a]) as Arc<[FieldValue]>) }
    fn l2(a: FieldValue, b: FieldValue) -> FieldValue { FieldValue::List(Arc::new([a, b]) as Arc<[FieldValue]>) }
    let int = || FieldValue::Int64(vk::any_i64());
    match vk::any_u8() {
        0 => chk(&sub, &sup, FieldValue::List(Arc::new([]) as Arc<[FieldValue]>)),
        1 => chk(&sub, &sup, l1(FieldValue::Null)),
        2 => chk(&sub, &sup, l1(int())),
        3 => chk(&sub, &sup, l2(FieldValue::Null, FieldValue::Null)),
        4 => chk(&sub, &sup, l2(FieldValue::Null, int())),
        5 => chk(&sub, &sup, l2(int(), FieldValue::Null)),
        6 => chk(&sub, &sup, l2(int(), int())),
        7 => chk(&sub, &sup, l1(l1(FieldValue::Null))),
        8 => chk(&sub, &sup, l1(l1(int()))),
        _ => chk(&sub, &sup, l2(l1(int()), FieldValue::Null)),
    }
    core::mem::forget((sup, sub));
}

// @harness c17_negative_control tier=quick kind=complete expect=fail
// @ob (control) claims a nullable parent is a scalar subtype of its non-null version: must FAIL
#[kani::proof]
#[kani::unwind(6)]
pub(crate) fn c17_negative_control() {
    let m = any_wf_mask(2);
    vk::assume((m & 1) == 0);
    let (nn, nullable) = (ty("A", m | 1), ty("A", m));
    assert!(nn.is_scalar_only_subtype(&nullable), "control: nullable <= non-null (false)");
    core::mem::forget((nn, nullable));
}
