// @target trustfall_core/src/lib.rs
// @module verif_c19
// @cfg all(test, verif_replay)
// @fn trustfall_core/src/schema/mod.rs::Schema::parse
// @fn trustfall_core/src/schema/mod.rs::Schema::new
//
// "schema construction returns either a schema or a typed error, never panics", evaluated natively on an
// enumerated family of schema documents derived mechanically from the repository's schema corpora.
// The "accepts exactly the valid schemas" clause is only checked against the corpora's recorded verdicts.
// Bounded stand-in (the schema parser is third-party code, see DESIGN.md C19).
use crate::schema::Schema;
use crate::verif_vk as vk;
use std::collections::BTreeSet;

fn verdict(text: &str) -> Result<bool, String> {
    let t = text.to_string();
    std::panic::catch_unwind(move || Schema::parse(&t).is_ok())
        .map_err(|p| {
            let m = p.downcast_ref::<String>().cloned().or_else(|| p.downcast_ref::<&str>().map(|s| s.to_string())).unwrap_or_default();
            // class of the panic: the message up to the first payload-specific character
            let class: String = m.lines().next().unwrap_or("").chars().take_while(|c| !matches!(c, '{' | '"' | '(' | ':')).collect();
            class.trim().to_string()
        })
}

// @grid c19_grid_schema_never_panics tier=quick bound="the repository's 5 base schemas, its valid-schema and schema-error corpora, and for each of those documents every single-line deletion, every single-line duplication, and 12 textual substitutions (type names, nullability, interface lists, parameter defaults, root type)"
// @ob for every document of the family Schema::parse returns Ok or a typed Err without panicking; documents of the valid corpus are accepted and documents of the schema-error corpus are rejected
pub(crate) fn c19_grid_schema_never_panics() {
    let mut n = 0u64;
    let mut failures = BTreeSet::new();
    let mut examples: std::collections::BTreeMap<String, String> = std::collections::BTreeMap::new();
    let mut docs: Vec<(String, String, Option<bool>)> = Vec::new();
    for (dir, expect) in [("test_data/schemas", Some(true)), ("test_data/tests/valid_schemas", Some(true)), ("test_data/tests/schema_errors", Some(false))] {
        let mut names: Vec<String> = std::fs::read_dir(dir).unwrap().filter_map(|e| e.ok()).map(|e| e.file_name().to_string_lossy().to_string()).filter(|n| n.ends_with(".graphql")).collect();
        names.sort();
        for name in names { docs.push((format!("{dir}/{name}"), std::fs::read_to_string(format!("{dir}/{name}")).unwrap(), expect)); }
    }
    let subs: [(&str, &str); 12] = [
        ("Int", "Undefined"), ("String", "[String"), ("!", ""), ("implements", "implements Missing &"), ("interface ", "type "), ("type ", "interface "),
        ("query: RootSchemaQuery", "query: Number"), (": Number", ": RootSchemaQuery"), ("(max: Int!)", "(max: Int! = \"x\")"), ("name: String", "name(arg: Int): String"),
        ("schema {", "schema { mutation: RootSchemaQuery"), ("directive @filter", "directive @optional"),
    ];
    for (label, text, expect) in &docs {
        vk::grid_case(format_args!("{}", label));
        match verdict(text) {
            Ok(v) => if let Some(e) = expect { if v != *e { failures.insert(format!("{label}: corpus document {} but the recorded verdict is the opposite", if v { "accepted" } else { "rejected" })); } },
            Err(m) => { failures.insert(format!("panic class `{m}`")); }
        }
        n += 1;
        let lines: Vec<&str> = text.lines().collect();
        for i in 0..lines.len() {
            let deleted: String = lines.iter().enumerate().filter(|(k, _)| *k != i).map(|(_, l)| *l).collect::<Vec<_>>().join("\n");
            if let Err(m) = verdict(&deleted) { failures.insert(format!("panic class `{m}`")); examples.entry(m).or_insert(format!("{label} minus line {}", i + 1)); }
            let mut dup = lines.clone(); dup.insert(i, lines[i]);
            if let Err(m) = verdict(&dup.join("\n")) { failures.insert(format!("panic class `{m}`")); examples.entry(m).or_insert(format!("{label} with line {} duplicated", i + 1)); }
            n += 2;
        }
        for (from, to) in subs {
            if !text.contains(from) { continue; }
            if let Err(m) = verdict(&text.replacen(from, to, 1)) { failures.insert(format!("panic class `{m}`")); examples.entry(m).or_insert(format!("{label} with first `{from}` -> `{to}`")); }
            if let Err(m) = verdict(&text.replace(from, to)) { failures.insert(format!("panic class `{m}`")); examples.entry(m).or_insert(format!("{label} with every `{from}` -> `{to}`")); }
            n += 2;
        }
    }
    vk::grid_done("c19_grid_schema_never_panics", n);
    for (class, example) in &examples { eprintln!("VERIF-GRID-EXAMPLE panic class `{class}` first seen on: {example}"); }
    if !failures.is_empty() { panic!("schema construction misbehaved: {{{}}}", failures.into_iter().collect::<Vec<_>>().join("; ")); }
}


// ---- acceptance against the documented rules ------------------------------------------------------
// A three-level hierarchy that is valid by construction; each case replaces one part of it by a variation
// whose verdict follows from one documented rule (the expected verdict is a constant of the case, written
// from the rule, not computed by running anything).
fn hierarchy(order: &str, leaf_fields: &str, extra: &str, top_implements: &str) -> String {
    format!(r#"schema {{ query: RootSchemaQuery }}
directive @filter(op: String!, value: [String!]) repeatable on FIELD | INLINE_FRAGMENT
directive @tag(name: String) repeatable on FIELD
directive @output(name: String) repeatable on FIELD
directive @optional on FIELD
directive @recurse(depth: Int!) on FIELD
directive @fold on FIELD
directive @transform(op: String!) repeatable on FIELD
type RootSchemaQuery {{ Top: [Top]  Other: Other }}
interface Top{top_implements} {{ p: Int  e: Top  q(x: Int): [Top] }}
interface Mid implements Top {{ p: Int!  e: Mid  q(x: Int): [Mid] }}
type Leaf implements {order} {{ {leaf_fields} }}
type Other {{ name: String }}
{extra}
"#)
}

// @grid c19_grid_acceptance_matches_rules tier=quick bound="a 3-level interface hierarchy (Top <- Mid <- Leaf) x both orders of Leaf's implements list x 16 valid and 30 invalid variations of Leaf's inherited fields, implements list and the surrounding types; 9 valid and 12 invalid parameter default values; 6 interface chains (transitivity at every depth); 8 default values at every position among 2-3 parameters"
// @ob Schema::parse accepts a document exactly when the documented rules hold: interfaces exist and are implemented transitively, inherited fields are present and only narrowed with respect to every implemented interface, inherited parameters are neither dropped nor added, field types are built-in scalars or defined vertex types, no reserved names, no edges into the root type, properties take no parameters, default values fit their parameter's type, no implementation cycles
pub(crate) fn c19_grid_acceptance_matches_rules() {
    let mut n = 0u64;
    let mut failures = BTreeSet::new();
    let mut check = |label: String, text: String, expect: bool, failures: &mut BTreeSet<String>| {
        vk::grid_case(format_args!("{}", label));
        match verdict(&text) {
            Ok(v) if v == expect => {}
            Ok(v) => { failures.insert(format!("{label}: {} but the rules say {}", if v { "accepted" } else { "rejected" }, if expect { "valid" } else { "invalid" })); }
            Err(m) => { if expect { failures.insert(format!("{label}: panic class `{m}` on a valid schema")); } }
        }
    };
    // (p, e, q) of Leaf; the base is (Int!, Leaf, [Leaf!])
    let field_cases: [(&str, &str, bool); 24] = [
        ("base", "p: Int!  e: Leaf  q(x: Int): [Leaf!]", true),
        ("edge to the middle interface", "p: Int!  e: Mid  q(x: Int): [Mid]", true),
        ("edges made non-null", "p: Int!  e: Leaf!  q(x: Int): [Leaf!]!", true),
        ("own extra fields", "p: Int!  e: Leaf  q(x: Int): [Leaf!]  own: String  other: Other  again(y: Int!): [Leaf]", true),
        ("field order changed", "q(x: Int): [Leaf!]  e: Leaf  p: Int!", true),
        ("property nullable again (wider than Mid only)", "p: Int  e: Leaf  q(x: Int): [Leaf!]", false),
        ("edge back to Top (wider than Mid only)", "p: Int!  e: Top  q(x: Int): [Leaf!]", false),
        ("list edge back to Top (wider than Mid only)", "p: Int!  e: Leaf  q(x: Int): [Top]", false),
        ("property of another scalar", "p: String!  e: Leaf  q(x: Int): [Leaf!]", false),
        ("property became a list", "p: [Int!]!  e: Leaf  q(x: Int): [Leaf!]", false),
        ("list edge became singular", "p: Int!  e: Leaf  q(x: Int): Leaf", false),
        ("edge to an unrelated type", "p: Int!  e: Other  q(x: Int): [Leaf!]", false),
        ("inherited property missing", "e: Leaf  q(x: Int): [Leaf!]", false),
        ("inherited edge missing", "p: Int!  q(x: Int): [Leaf!]", false),
        ("inherited parameter dropped", "p: Int!  e: Leaf  q: [Leaf!]", false),
        ("parameter added to an inherited edge", "p: Int!  e: Leaf  q(x: Int, y: Int): [Leaf!]", false),
        ("parameter renamed", "p: Int!  e: Leaf  q(z: Int): [Leaf!]", false),
        ("property with a parameter", "p(a: Int): Int!  e: Leaf  q(x: Int): [Leaf!]", false),
        ("undefined field type", "p: Int!  e: Leaf  q(x: Int): [Leaf!]  z: Undefined", false),
        ("edge into the root type", "p: Int!  e: Leaf  q(x: Int): [Leaf!]  r: RootSchemaQuery", false),
        ("reserved field name", "p: Int!  e: Leaf  q(x: Int): [Leaf!]  __mine: Int", false),
        ("duplicate field", "p: Int!  e: Leaf  q(x: Int): [Leaf!]  p: Int!", false),
        ("ID property", "p: Int!  e: Leaf  q(x: Int): [Leaf!]  id: ID!", true),
        ("list-of-list property", "p: Int!  e: Leaf  q(x: Int): [Leaf!]  m: [[Float!]]", true),
    ];
    for order in ["Top & Mid", "Mid & Top"] {
        for (label, fields, expect) in field_cases { check(format!("implements {order}: {label}"), hierarchy(order, fields, "", ""), expect, &mut failures); n += 1; }
    }
    let base = "p: Int!  e: Leaf  q(x: Int): [Leaf!]";
    let structure: [(&str, String, bool); 11] = [
        ("implements only Mid (Top not listed)", hierarchy("Mid", base, "", ""), false),
        ("implements only Top", hierarchy("Top", base, "", ""), true),
        ("implements a type that does not exist", hierarchy("Top & Mid & Missing", base, "", ""), false),
        ("implements an object type", hierarchy("Top & Mid & Other", base, "", ""), false),
        ("implementation cycle", hierarchy("Top & Mid", base, "", " implements Mid"), false),
        ("reserved type name", hierarchy("Top & Mid", base, "type __Mine { name: String }", ""), false),
        ("second implementer", hierarchy("Top & Mid", base, "type Leaf2 implements Mid & Top { p: Int!  e: Leaf  q(x: Int): [Leaf2] }", ""), true),
        ("second implementer widening against Mid", hierarchy("Top & Mid", base, "type Leaf2 implements Top & Mid { p: Int  e: Leaf  q(x: Int): [Leaf2] }", ""), false),
        ("third interface level", hierarchy("Top & Mid", base, "interface Low implements Mid & Top { p: Int!  e: Low  q(x: Int): [Low] }  type Leaf3 implements Top & Mid & Low { p: Int!  e: Leaf3  q(x: Int): [Leaf3] }", ""), true),
        ("third interface level, widening against the last listed interface", hierarchy("Top & Mid", base, "interface Low implements Mid & Top { p: Int!  e: Low  q(x: Int): [Low] }  type Leaf3 implements Top & Mid & Low { p: Int!  e: Mid  q(x: Int): [Leaf3] }", ""), false),
        ("duplicate type", hierarchy("Top & Mid", base, "type Other { name: String }", ""), false),
    ];
    for (label, text, expect) in structure { check(label.to_string(), text, expect, &mut failures); n += 1; }
    // transitivity is required of interfaces as well, at every depth
    let chain = |lowest_implements: &str, bottom: &str| hierarchy("Top & Mid", base, &format!("interface Low implements {lowest_implements} {{ p: Int!  e: Low  q(x: Int): [Low] }}  {bottom}"), "");
    let chains: [(&str, String, bool); 6] = [
        ("interface implementing Mid and Top", chain("Mid & Top", ""), true),
        ("interface implementing only Mid (Top not listed)", chain("Mid", ""), false),
        ("interface implementing only Mid, with a complete object type below it", chain("Mid", "type Bottom implements Top & Mid & Low { p: Int!  e: Low  q(x: Int): [Low] }"), false),
        ("object type below a complete interface chain, itself incomplete", chain("Mid & Top", "type Bottom implements Low & Mid { p: Int!  e: Low  q(x: Int): [Low] }"), false),
        ("object type below a complete interface chain", chain("Top & Mid", "type Bottom implements Low & Mid & Top { p: Int!  e: Bottom  q(x: Int): [Bottom!] }"), true),
        ("fourth level interface missing the topmost one", chain("Mid & Top", "interface Lower implements Low & Mid { p: Int!  e: Lower  q(x: Int): [Lower] }"), false),
    ];
    for (label, text, expect) in chains { check(label.to_string(), text, expect, &mut failures); n += 1; }
    // default values of edge parameters
    let defaults: [(&str, bool); 21] = [
        ("x: Int = 1", true), ("x: Int = null", true), ("x: [Int] = [1, null]", true), (r#"x: String = "a""#, true), ("x: Float = 1.5", true), ("x: Boolean = true", true),
        ("x: Int! = 7", true), ("x: [Int!]! = []", true), ("x: [[Int]] = [[1], null]", true),
        (r#"x: Int = "a""#, false), ("x: Int! = null", false), ("x: String = 1", false), ("x: [Int!] = [1, null]", false), ("x: Int = {a: 1}", false), ("x: [Int] = [1, {x: 2}]", false),
        ("x: Int = [1]", false), ("x: Boolean = 1", false), ("x: Int = 1.5", false), ("x: Int = SOME_ENUM", false), (r#"x: [String] = "a""#, false), ("x: String = {}", false),
    ];
    for (param, expect) in defaults {
        for place in ["edge", "entrypoint"] {
            let text = if place == "edge" { hierarchy("Top & Mid", base, &format!("type Holder {{ name: String  to({param}): [Other] }}"), "") }
                       else { hierarchy("Top & Mid", base, "", "").replace("Other: Other", &format!("Other: Other  Param({param}): [Other]")) };
            check(format!("default value on an {place} parameter: {param}"), text, expect, &mut failures); n += 1;
        }
    }
    // the position of the parameter that carries the default must not matter
    let bad = [r#"second: String = 123"#, "second: Int! = null", "second: [Int!] = [null]", "second: Int = {a: 1}"];
    let good = [r#"second: String = "s""#, "second: Int! = 3", "second: [Int!] = [4]", "second: Int = null"];
    let others = ["first: Int!", "first: Int", "first: String = \"ok\"", "first: [Int]"];
    for (list, expect) in [(&bad, false), (&good, true)] { for dflt in list.iter() { for other in others {
        for params in [format!("{other}, {dflt}"), format!("{dflt}, {other}"), format!("{other}, {dflt}, third: Boolean"), format!("zero: Float, {other}, {dflt}")] {
            check(format!("edge parameters ({params})"), hierarchy("Top & Mid", base, &format!("type Holder {{ name: String  to({params}): [Other] }}"), ""), expect, &mut failures);
            check(format!("entrypoint parameters ({params})"), hierarchy("Top & Mid", base, "", "").replace("Other: Other", &format!("Other: Other  Param({params}): [Other]")), expect, &mut failures);
            n += 2;
        }
    } } }
    vk::grid_done("c19_grid_acceptance_matches_rules", n);
    if !failures.is_empty() { panic!("schema acceptance differs from the documented rules: {{{}}}", failures.into_iter().collect::<Vec<_>>().join("; ")); }
}
