// @target trustfall_core/src/lib.rs
// @module verif_c19
// @cfg all(test, verif_replay)
// @fn trustfall_core/src/schema/mod.rs::Schema::parse
// @fn trustfall_core/src/schema/mod.rs::Schema::new
//
// "schema construction returns either a schema or a typed error, never panics", evaluated natively on an
// enumerated family of schema documents derived mechanically from the repository's schema corpora.
// The "accepts exactly the valid schemas" clause is only checked against the corpora's recorded verdicts.
// Bounded stand-in (the schema parser is third-party code, see DESIGN.md C19).
use crate::schema::Schema;
use crate::verif_vk as vk;
use std::collections::BTreeSet;

fn verdict(text: &str) -> Result<bool, String> {
    let t = text.to_string();
    std::panic::catch_unwind(move || Schema::parse(&t).is_ok())
        .map_err(|p| {
            let m = p.downcast_ref::<String>().cloned().or_else(|| p.downcast_ref::<&str>().map(|s| s.to_string())).unwrap_or_default();
            // class of the panic: the message up to the first payload-specific character
            let class: String = m.lines().next().unwrap_or("").chars().take_while(|c| !matches!(c, '{' | '"' | '(' | ':')).collect();
            class.trim().to_string()
        })
}

// @grid c19_grid_schema_never_panics tier=quick bound="the repository's 5 base schemas, its valid-schema and schema-error corpora, and for each of those documents every single-line deletion, every single-line duplication, and 12 textual substitutions (type names, nullability, interface lists, parameter defaults, root type)"
// @ob for every document of the family Schema::parse returns Ok or a typed Err without panicking; documents of the valid corpus are accepted and documents of the schema-error corpus are rejected
pub(crate) fn c19_grid_schema_never_panics() {
    let mut n = 0u64;
    let mut failures = BTreeSet::new();
    let mut examples: std::collections::BTreeMap<String, String> = std::collections::BTreeMap::new();
    let mut docs: Vec<(String, String, Option<bool>)> = Vec::new();
    for (dir, expect) in [("test_data/schemas", Some(true)), ("test_data/tests/valid_schemas", Some(true)), ("test_data/tests/schema_errors", Some(false))] {
        let mut names: Vec<String> = std::fs::read_dir(dir).unwrap().filter_map(|e| e.ok()).map(|e| e.file_name().to_string_lossy().to_string()).filter(|n| n.ends_with(".graphql")).collect();
        names.sort();
        for name in names { docs.push((format!("{dir}/{name}"), std::fs::read_to_string(format!("{dir}/{name}")).unwrap(), expect)); }
    }
    let subs: [(&str, &str); 12] = [
        ("Int", "Undefined"), ("String", "[String"), ("!", ""), ("implements", "implements Missing &"), ("interface ", "type "), ("type ", "interface "),
        ("query: RootSchemaQuery", "query: Number"), (": Number", ": RootSchemaQuery"), ("(max: Int!)", "(max: Int! = \"x\")"), ("name: String", "name(arg: Int): String"),
        ("schema {", "schema { mutation: RootSchemaQuery"), ("directive @filter", "directive @optional"),
    ];
    for (label, text, expect) in &docs {
        vk::grid_case(format_args!("{}", label));
        match verdict(text) {
            Ok(v) => if let Some(e) = expect { if v != *e { failures.insert(format!("{label}: corpus document {} but the recorded verdict is the opposite", if v { "accepted" } else { "rejected" })); } },
            Err(m) => { failures.insert(format!("panic class `{m}`")); }
        }
        n += 1;
        let lines: Vec<&str> = text.lines().collect();
        for i in 0..lines.len() {
            let deleted: String = lines.iter().enumerate().filter(|(k, _)| *k != i).map(|(_, l)| *l).collect::<Vec<_>>().join("\n");
            if let Err(m) = verdict(&deleted) { failures.insert(format!("panic class `{m}`")); examples.entry(m).or_insert(format!("{label} minus line {}", i + 1)); }
            let mut dup = lines.clone(); dup.insert(i, lines[i]);
            if let Err(m) = verdict(&dup.join("\n")) { failures.insert(format!("panic class `{m}`")); examples.entry(m).or_insert(format!("{label} with line {} duplicated", i + 1)); }
            n += 2;
        }
        for (from, to) in subs {
            if !text.contains(from) { continue; }
            if let Err(m) = verdict(&text.replacen(from, to, 1)) { failures.insert(format!("panic class `{m}`")); examples.entry(m).or_insert(format!("{label} with first `{from}` -> `{to}`")); }
            if let Err(m) = verdict(&text.replace(from, to)) { failures.insert(format!("panic class `{m}`")); examples.entry(m).or_insert(format!("{label} with every `{from}` -> `{to}`")); }
            n += 2;
        }
    }
    vk::grid_done("c19_grid_schema_never_panics", n);
    for (class, example) in &examples { eprintln!("VERIF-GRID-EXAMPLE panic class `{class}` first seen on: {example}"); }
    if !failures.is_empty() { panic!("schema construction misbehaved: {{{}}}", failures.into_iter().collect::<Vec<_>>().join("; ")); }
}
