// Verus twin of the Kani contract on FieldValue::compare_i64_to_u64 (unbounded `int` spec).
// The body below is extracted byte-for-byte from /repo on every run (tools/extract_fn.py).
use vstd::prelude::*;
use core::cmp::Ordering;
verus! {

pub open spec fn spec_cmp(s: int, u: int) -> Ordering {
    if s < u { Ordering::Less } else if s == u { Ordering::Equal } else { Ordering::Greater }
}

// ASSUMED std contract (trusted, listed in the evidence): i64::try_from(u64) succeeds exactly when the
// value fits and then preserves it. (`u64.try_into()` is specified by vstd in terms of this call;
// u64::try_from(i64), i64::cmp and u64::cmp have vstd specifications.)
pub assume_specification[ <i64 as TryFrom<u64>>::try_from ](x: u64) -> (r: Result<i64, <i64 as TryFrom<u64>>::Error>)
    ensures
        x <= i64::MAX as u64 ==> r.is_ok() && r.unwrap() == x as i64,
        x > i64::MAX as u64 ==> r.is_err(),
;

//@orig trustfall_core/src/ir/value.rs :: fn compare_i64_to_u64(signed: i64, unsigned: u64) -> Ordering
fn compare_i64_to_u64(signed: i64, unsigned: u64) -> (r: Ordering)
    ensures r == spec_cmp(signed as int, unsigned as int)
{{BODY trustfall_core/src/ir/value.rs compare_i64_to_u64}}

// ---- lemma over the spec: the lexicographic extension of a total order on keys is again a total order
//      that agrees with equality (lists of scalars of any length; C08 "nested lists" by induction on nesting,
//      given that slice comparison is lexicographic - assumption A2).
pub open spec fn key_cmp(a: int, b: int) -> Ordering { spec_cmp(a, b) }

pub open spec fn lex_cmp(a: Seq<int>, b: Seq<int>) -> Ordering
    decreases a.len()
{
    if a.len() == 0 {
        if b.len() == 0 { Ordering::Equal } else { Ordering::Less }
    } else if b.len() == 0 {
        Ordering::Greater
    } else if key_cmp(a[0], b[0]) != Ordering::Equal {
        key_cmp(a[0], b[0])
    } else {
        lex_cmp(a.subrange(1, a.len() as int), b.subrange(1, b.len() as int))
    }
}

pub open spec fn rev(o: Ordering) -> Ordering {
    match o { Ordering::Less => Ordering::Greater, Ordering::Equal => Ordering::Equal, Ordering::Greater => Ordering::Less }
}

proof fn lemma_lex_reflexive(a: Seq<int>)
    ensures lex_cmp(a, a) == Ordering::Equal
    decreases a.len()
{
    if a.len() > 0 { lemma_lex_reflexive(a.subrange(1, a.len() as int)); }
}

proof fn lemma_lex_antisymmetric(a: Seq<int>, b: Seq<int>)
    ensures lex_cmp(a, b) == rev(lex_cmp(b, a))
    decreases a.len()
{
    if a.len() > 0 && b.len() > 0 && key_cmp(a[0], b[0]) == Ordering::Equal {
        lemma_lex_antisymmetric(a.subrange(1, a.len() as int), b.subrange(1, b.len() as int));
    }
}

proof fn lemma_lex_equal_iff_same(a: Seq<int>, b: Seq<int>)
    ensures (lex_cmp(a, b) == Ordering::Equal) <==> (a =~= b)
    decreases a.len()
{
    if a.len() > 0 && b.len() > 0 {
        let (ta, tb) = (a.subrange(1, a.len() as int), b.subrange(1, b.len() as int));
        lemma_lex_equal_iff_same(ta, tb);
        if key_cmp(a[0], b[0]) == Ordering::Equal && ta =~= tb {
            assert(a =~= seq![a[0]] + ta);
            assert(b =~= seq![b[0]] + tb);
        }
        if a =~= b { assert(ta =~= tb); }
    }
}

proof fn lemma_lex_transitive(a: Seq<int>, b: Seq<int>, c: Seq<int>)
    requires lex_cmp(a, b) != Ordering::Greater, lex_cmp(b, c) != Ordering::Greater
    ensures lex_cmp(a, c) != Ordering::Greater
    decreases a.len()
{
    if a.len() > 0 && b.len() > 0 && c.len() > 0 {
        if key_cmp(a[0], b[0]) == Ordering::Equal && key_cmp(b[0], c[0]) == Ordering::Equal {
            lemma_lex_transitive(a.subrange(1, a.len() as int), b.subrange(1, b.len() as int), c.subrange(1, c.len() as int));
        }
    }
}

} // verus!
fn main() {}
