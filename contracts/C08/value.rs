// @target trustfall_core/src/ir/value.rs
// @module verif_c08
// @fn FieldValue::compare_i64_to_u64
// @fn FieldValue::partial_cmp
// @fn FieldValue::eq
// @fn FieldValue::structural_eq
// @fn FieldValue::discriminant
//
// Contract-mode postcondition on the real `compare_i64_to_u64` (inserted above the fn item):
// @contract fn compare_i64_to_u64(
// | #[cfg_attr(kani, kani::ensures(|r: &Ordering| *r == (signed as i128).cmp(&(unsigned as i128))))]
use super::*;
use super::FieldValue;
use crate::verif_spec::{mk_scalar, num, spec_cmp_scalar};
use crate::verif_vk as vk;

// @harness c08_contract_compare_i64_to_u64 tier=quick kind=complete
// @ob compare_i64_to_u64(s,u) == cmp(s as i128, u as i128) for all 2^128 (s,u)  [kani::ensures on the real fn, proof_for_contract]
#[kani::proof_for_contract(FieldValue::compare_i64_to_u64)]
pub(crate) fn c08_contract_compare_i64_to_u64() {
    let s = vk::any_i64();
    let u = vk::any_u64();
    let r = FieldValue::compare_i64_to_u64(s, u);
    // harness-asserted twin of the contract (also what the native replay executes)
    assert!(r == (s as i128).cmp(&(u as i128)), "compare_i64_to_u64 == mathematical comparison");
}

// @harness c08_partial_cmp_eq_scalars tier=quick kind=complete
// @ob for all scalar a,b (Null, Int64, Uint64, finite Float64, Boolean; payloads full domain): a.partial_cmp(b) == Some(spec_cmp(a,b))
// @ob (a == b) == (spec_cmp(a,b) == Equal)   [equality agrees with the order; Int64(x) == Uint64(x)]
// @ob a.structural_eq(b) implies a == b
#[kani::proof]
#[kani::unwind(2)]
pub(crate) fn c08_partial_cmp_eq_scalars() {
    let (sa, sb) = (vk::any_u8(), vk::any_u8());
    verif_split5!(sa, ka => {
        verif_split5!(sb, kb => {
            let a = mk_scalar(ka);
            let b = mk_scalar(kb);
            let spec = spec_cmp_scalar(&a, &b);
            verif_cover!(true, "variant pair reachable");
            assert!(a.partial_cmp(&b) == Some(spec), "partial_cmp == spec order");
            assert!((a == b) == (spec == Ordering::Equal), "eq agrees with order");
            assert!(!a.structural_eq(&b) || a == b, "structural_eq implies eq");
            // derived comparison operators the engine uses (`<`, `<=`, ... on FieldValue)
            assert!((a < b) == (spec == Ordering::Less), "lt == spec");
            assert!((a <= b) == (spec != Ordering::Greater), "le == spec");
            assert!((a > b) == (spec == Ordering::Greater), "gt == spec");
            assert!((a >= b) == (spec != Ordering::Less), "ge == spec");
            core::mem::forget(a);
            core::mem::forget(b);
        })
    });
}

// Laws of the spec order itself (lemmas over the spec function; no repository code involved):
// an abstract scalar is (rank, key) with rank in {0,1,3,5}; integer keys are i128 in
// [i64::MIN, u64::MAX], float keys finite f64, boolean keys 0/1.
#[derive(Clone, Copy)]
struct Abs {
    rank: u8,
    n: i128,
    f: f64,
}
fn abs_any() -> Abs {
    let r = vk::any_u8();
    vk::assume(r == 0 || r == 1 || r == 3 || r == 5);
    let lo = vk::any_i64();
    let hi = vk::any_u64();
    let n = if vk::any_bool() { lo as i128 } else { hi as i128 };
    let f = vk::any_f64();
    vk::assume(f.is_finite());
    Abs { rank: r, n: if r == 5 { n & 1 } else { n }, f }
}
fn abs_cmp(a: Abs, b: Abs) -> Ordering {
    if a.rank != b.rank {
        return a.rank.cmp(&b.rank);
    }
    match a.rank {
        0 => Ordering::Equal,
        3 => {
            if a.f < b.f { Ordering::Less } else if a.f > b.f { Ordering::Greater } else { Ordering::Equal }
        }
        _ => a.n.cmp(&b.n),
    }
}

// @harness c08_spec_order_laws tier=quick kind=complete
// @ob spec order: reflexive, antisymmetric (cmp(a,b) == reverse(cmp(b,a))), transitive <=, transitive ==, total, on all abstract scalar triples
#[kani::proof]
pub(crate) fn c08_spec_order_laws() {
    let (a, b, c) = (abs_any(), abs_any(), abs_any());
    assert!(abs_cmp(a, a) == Ordering::Equal, "reflexive");
    assert!(abs_cmp(a, b) == abs_cmp(b, a).reverse(), "antisymmetric/total");
    if abs_cmp(a, b) != Ordering::Greater && abs_cmp(b, c) != Ordering::Greater {
        assert!(abs_cmp(a, c) != Ordering::Greater, "<= transitive");
    }
    if abs_cmp(a, b) == Ordering::Equal && abs_cmp(b, c) == Ordering::Equal {
        assert!(abs_cmp(a, c) == Ordering::Equal, "== transitive");
    }
    if abs_cmp(a, b) == Ordering::Less && abs_cmp(b, c) != Ordering::Greater {
        assert!(abs_cmp(a, c) == Ordering::Less, "< then <= gives <");
    }
}

// @harness c08_spec_matches_abstract tier=quick kind=complete
// @ob the abstraction (rank,key) of real scalar values is faithful: spec_cmp_scalar(a,b) == abs_cmp(abs(a),abs(b))
#[kani::proof]
#[kani::unwind(2)]
pub(crate) fn c08_spec_matches_abstract() {
    fn abs_of(v: &FieldValue) -> Abs {
        match v {
            FieldValue::Null => Abs { rank: 0, n: 0, f: 0.0 },
            FieldValue::Int64(i) => Abs { rank: 1, n: *i as i128, f: 0.0 },
            FieldValue::Uint64(u) => Abs { rank: 1, n: *u as i128, f: 0.0 },
            FieldValue::Float64(f) => Abs { rank: 3, n: 0, f: *f },
            FieldValue::Boolean(b) => Abs { rank: 5, n: *b as i128, f: 0.0 },
            _ => unreachable!(),
        }
    }
    let (sa, sb) = (vk::any_u8(), vk::any_u8());
    verif_split5!(sa, ka => {
        verif_split5!(sb, kb => {
            let a = mk_scalar(ka);
            let b = mk_scalar(kb);
            assert!(spec_cmp_scalar(&a, &b) == abs_cmp(abs_of(&a), abs_of(&b)), "spec == abstract order");
            core::mem::forget(a);
            core::mem::forget(b);
        })
    });
}

// Direct check of the laws on the real code for all scalar triples (no spec in between),
// one harness per kind of the first value.
fn triples_for(ka: u8) {
    let (sb, sc) = (vk::any_u8(), vk::any_u8());
    verif_split5!(sb, kb => {
        verif_split5!(sc, kc => {
            let a = mk_scalar(ka);
            let b = mk_scalar(kb);
            let c = mk_scalar(kc);
            assert!(a == a, "eq reflexive");
            assert!((a == b) == (b == a), "eq symmetric");
            assert!(!(a == b && b == c) || a == c, "eq transitive");
            let (lt, eq, gt) = (a < b, a == b, a > b);
            assert!((lt as u8) + (eq as u8) + (gt as u8) == 1, "trichotomy");
            assert!(!(a <= b && b <= c) || a <= c, "le transitive");
            assert!(!(a <= b && b <= a) || a == b, "le antisymmetric");
            core::mem::forget(a);
            core::mem::forget(b);
            core::mem::forget(c);
        })
    });
}
// @harness c08_real_triples_null tier=thorough kind=complete timeout=1800
// @ob on the real PartialEq/PartialOrd, for all scalar triples a,b,c with a of kind null: a==a; a==b <=> b==a; a==b && b==c => a==c; exactly one of a<b, a==b, a>b; a<=b && b<=c => a<=c; a<=b && b<=a => a==b
#[kani::proof]
#[kani::unwind(2)]
pub(crate) fn c08_real_triples_null() {
    triples_for(0);
}

// @harness c08_real_triples_i64 tier=thorough kind=complete timeout=1800
// @ob on the real PartialEq/PartialOrd, for all scalar triples a,b,c with a of kind i64: a==a; a==b <=> b==a; a==b && b==c => a==c; exactly one of a<b, a==b, a>b; a<=b && b<=c => a<=c; a<=b && b<=a => a==b
#[kani::proof]
#[kani::unwind(2)]
pub(crate) fn c08_real_triples_i64() {
    triples_for(1);
}

// @harness c08_real_triples_u64 tier=thorough kind=complete timeout=1800
// @ob on the real PartialEq/PartialOrd, for all scalar triples a,b,c with a of kind u64: a==a; a==b <=> b==a; a==b && b==c => a==c; exactly one of a<b, a==b, a>b; a<=b && b<=c => a<=c; a<=b && b<=a => a==b
#[kani::proof]
#[kani::unwind(2)]
pub(crate) fn c08_real_triples_u64() {
    triples_for(2);
}

// @harness c08_real_triples_f64 tier=thorough kind=complete timeout=1800
// @ob on the real PartialEq/PartialOrd, for all scalar triples a,b,c with a of kind f64: a==a; a==b <=> b==a; a==b && b==c => a==c; exactly one of a<b, a==b, a>b; a<=b && b<=c => a<=c; a<=b && b<=a => a==b
#[kani::proof]
#[kani::unwind(2)]
pub(crate) fn c08_real_triples_f64() {
    triples_for(3);
}

// @harness c08_real_triples_bool tier=thorough kind=complete timeout=1800
// @ob on the real PartialEq/PartialOrd, for all scalar triples a,b,c with a of kind bool: a==a; a==b <=> b==a; a==b && b==c => a==c; exactly one of a<b, a==b, a>b; a<=b && b<=c => a<=c; a<=b && b<=a => a==b
#[kani::proof]
#[kani::unwind(2)]
pub(crate) fn c08_real_triples_bool() {
    triples_for(4);
}

// Integers: agreement with numeric order, in all four representation pairs.
// @harness c08_integers_numeric tier=quick kind=complete
// @ob for integer values in either representation: (a < b) == (num(a) < num(b)), (a == b) == (num(a) == num(b))
#[kani::proof]
#[kani::unwind(2)]
pub(crate) fn c08_integers_numeric() {
    let (sa, sb) = (vk::any_bool(), vk::any_bool());
    verif_split3!(sa as u8 + 1, ka => {
        verif_split3!(sb as u8 + 1, kb => {
            let a = crate::verif_spec::mk_int_or_null(ka);
            let b = crate::verif_spec::mk_int_or_null(kb);
            if let (Some(x), Some(y)) = (num(&a), num(&b)) {
                verif_cover!(x == y, "numerically equal reachable");
                verif_cover!(x < 0 || y > i64::MAX as i128, "outside the common range reachable");
                assert!((a < b) == (x < y), "int lt numeric");
                assert!((a == b) == (x == y), "int eq numeric");
                assert!(a.partial_cmp(&b) == Some(x.cmp(&y)), "int cmp numeric");
            }
            core::mem::forget(a);
            core::mem::forget(b);
        })
    });
}

// Negative control: a deliberately false instance of the contract must be refuted.
// @harness c08_negative_control tier=quick kind=complete expect=fail
// @ob (control) claims Int64(-1) >= Uint64(u) for some u: must FAIL
#[kani::proof]
#[kani::unwind(2)]
pub(crate) fn c08_negative_control() {
    let a = FieldValue::Int64(-1);
    let b = FieldValue::Uint64(vk::any_u64());
    assert!(a >= b, "control: -1 >= any u64 (false)");
    core::mem::forget(a);
    core::mem::forget(b);
}
