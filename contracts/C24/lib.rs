// @target trustfall_core/src/lib.rs
// @module verif_c24
// @fn trustfall_core/src/schema/mod.rs::Schema
// @fn trustfall_core/src/ir/indexed.rs::IndexedQuery
// @fn trustfall_core/src/ir/mod.rs::IRQuery
// @fn trustfall_core/src/ir/value.rs::FieldValue
// @fn trustfall_core/src/ir/types/base.rs::Type
//
// Type-level obligations: every value a user shares between threads is Send + Sync. These are
// auto-trait obligations; rustc's trait solver discharges them structurally over every field of
// every reachable type (for all instances). A field of a non-thread-safe type (Rc, Cell, RefCell,
// raw pointer, ...) anywhere inside makes this module fail to compile, naming the field.
use std::sync::Arc;

fn thread_safe<T: Send + Sync>() {}
fn sendable<T: Send>() {}

pub(crate) fn c24_obligations() {
    thread_safe::<crate::schema::Schema>();
    thread_safe::<crate::ir::IndexedQuery>();
    thread_safe::<Arc<crate::ir::IndexedQuery>>();
    thread_safe::<crate::ir::IRQuery>();
    thread_safe::<crate::ir::IRQueryComponent>();
    thread_safe::<crate::ir::IRVertex>();
    thread_safe::<crate::ir::IREdge>();
    thread_safe::<crate::ir::IRFold>();
    thread_safe::<crate::ir::Type>();
    thread_safe::<crate::ir::FieldValue>();
    thread_safe::<crate::ir::TransparentValue>();
    thread_safe::<crate::ir::EdgeParameters>();
    thread_safe::<crate::ir::FieldRef>();
    thread_safe::<crate::ir::Argument>();
    thread_safe::<crate::ir::Output>();
    thread_safe::<crate::interpreter::InterpretedQuery>();
    thread_safe::<crate::interpreter::ResolveInfo>();
    thread_safe::<crate::interpreter::ResolveEdgeInfo>();
    thread_safe::<crate::interpreter::CandidateValue<crate::ir::FieldValue>>();
    thread_safe::<crate::interpreter::DataContext<u64>>();
    thread_safe::<crate::frontend::error::FrontendError>();
    thread_safe::<crate::schema::error::InvalidSchemaError>();
    thread_safe::<crate::interpreter::error::QueryArgumentsError>();
    // compiling shares the schema by reference between threads: fn(&Schema, &str) needs Schema: Sync (above);
    // the compiled result is moved to / shared with other threads:
    sendable::<Result<Arc<crate::ir::IndexedQuery>, crate::frontend::error::FrontendError>>();
}
