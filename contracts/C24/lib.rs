// @target trustfall_core/src/lib.rs
// @module verif_c24
// @fn trustfall_core/src/schema/mod.rs::Schema
// @fn trustfall_core/src/ir/indexed.rs::IndexedQuery
// @fn trustfall_core/src/ir/mod.rs::IRQuery
// @fn trustfall_core/src/ir/value.rs::FieldValue
// @fn trustfall_core/src/ir/types/base.rs::Type
//
// Type-level obligations: every value a user shares between threads is Send + Sync. These are
// auto-trait obligations; rustc's trait solver discharges them structurally over every field of
// every reachable type (for all instances). A field of a non-thread-safe type (Rc, Cell, RefCell,
// raw pointer, ...) anywhere inside makes this module fail to compile, naming the field.
use std::sync::Arc;

fn thread_safe<T: Send + Sync>() {}
fn sendable<T: Send>() {}

pub(crate) fn c24_obligations() {
    thread_safe::<crate::schema::Schema>();
    thread_safe::<crate::ir::IndexedQuery>();
    thread_safe::<Arc<crate::ir::IndexedQuery>>();
    thread_safe::<crate::ir::IRQuery>();
    thread_safe::<crate::ir::IRQueryComponent>();
    thread_safe::<crate::ir::IRVertex>();
    thread_safe::<crate::ir::IREdge>();
    thread_safe::<crate::ir::IRFold>();
    thread_safe::<crate::ir::Type>();
    thread_safe::<crate::ir::FieldValue>();
    thread_safe::<crate::ir::TransparentValue>();
    thread_safe::<crate::ir::EdgeParameters>();
    thread_safe::<crate::ir::FieldRef>();
    thread_safe::<crate::ir::Argument>();
    thread_safe::<crate::ir::Output>();
    thread_safe::<crate::interpreter::InterpretedQuery>();
    thread_safe::<crate::interpreter::ResolveInfo>();
    thread_safe::<crate::interpreter::ResolveEdgeInfo>();
    thread_safe::<crate::interpreter::CandidateValue<crate::ir::FieldValue>>();
    thread_safe::<crate::interpreter::DataContext<u64>>();
    thread_safe::<crate::frontend::error::FrontendError>();
    thread_safe::<crate::schema::error::InvalidSchemaError>();
    thread_safe::<crate::interpreter::error::QueryArgumentsError>();
    // compiling shares the schema by reference between threads: fn(&Schema, &str) needs Schema: Sync (above);
    // the compiled result is moved to / shared with other threads:
    sendable::<Result<Arc<crate::ir::IndexedQuery>, crate::frontend::error::FrontendError>>();
}

// ---- second clause, bounded: concurrent use == sequential use (cannot false-alarm on race-free code) ----
#[cfg(all(test, verif_replay))]
mod concurrent {
    use crate::interpreter::execution::interpret_ir;
    use crate::ir::{FieldValue, IndexedQuery};
    use crate::numbers_interpreter::NumbersAdapter;
    use crate::verif_vk as vk;
    use std::collections::BTreeMap;
    use std::sync::Arc;

    type Rows = Vec<BTreeMap<Arc<str>, FieldValue>>;
    fn run(iq: &Arc<IndexedQuery>, args: &BTreeMap<Arc<str>, FieldValue>) -> Rows {
        interpret_ir(Arc::new(NumbersAdapter::new()), iq.clone(), Arc::new(args.clone())).expect("arguments accepted").collect()
    }

    pub(crate) fn grid() {
        let adapter = NumbersAdapter::new();
        let schema = adapter.schema();
        let queries = [
            r#"{ Number(min: 0, max: 20) { name @output @filter(op: "regex", value: ["$p"]) } }"#,
            r#"{ Number(min: 0, max: 20) { name @output @filter(op: "not_regex", value: ["$p"]) value @output } }"#,
            r#"{ Number(min: 0, max: 20) { name @output @filter(op: "has_prefix", value: ["$p"]) } }"#,
            r#"{ Number(min: 0, max: 12) { value @output @filter(op: ">=", value: ["$n"]) multiple(max: 3) @fold @transform(op: "count") @filter(op: ">", value: ["$n"]) @output(name: "c") } }"#,
        ];
        let pats = ["^t", "^f", "^s", "^e", "n$", "e$", "^o", "ee"];
        let mut n = 0u64;
        for (qi, q) in queries.iter().enumerate() {
            // compile concurrently from several threads sharing the schema: all results must be equal
            let compiled: Vec<Arc<IndexedQuery>> = std::thread::scope(|s| {
                let hs: Vec<_> = (0..6).map(|_| s.spawn(|| crate::frontend::parse(schema, q).expect("query compiles"))).collect();
                hs.into_iter().map(|h| h.join().unwrap()).collect()
            });
            assert!(compiled.iter().all(|c| **c == *compiled[0]), "concurrent compilation gives different compiled queries");
            let iq = &compiled[0];
            let arg_sets: Vec<BTreeMap<Arc<str>, FieldValue>> = (0..8).map(|i| {
                let mut m = BTreeMap::new();
                if q.contains("$p") { m.insert(Arc::from("p"), FieldValue::String(Arc::from(if qi == 2 { &pats[i][1..] } else { pats[i] }))); }
                if q.contains("$n") { m.insert(Arc::from("n"), FieldValue::Int64(i as i64 % 4)); }
                m
            }).collect();
            let sequential: Vec<Rows> = arg_sets.iter().map(|a| run(iq, a)).collect();
            for iteration in 0..40 {
                vk::grid_case(format_args!("query {} iteration {}", qi, iteration));
                let concurrent: Vec<Rows> = std::thread::scope(|s| {
                    let hs: Vec<_> = arg_sets.iter().map(|a| s.spawn(move || run(iq, a))).collect();
                    hs.into_iter().map(|h| h.join().unwrap()).collect()
                });
                assert!(concurrent == sequential, "executing a shared compiled query concurrently with different arguments gives results that differ from sequential execution");
                n += 1;
            }
        }
        vk::grid_done("c24_grid_concurrent_equals_sequential", n);
    }
}

// @grid c24_grid_concurrent_equals_sequential tier=quick bound="4 queries (regex / not_regex / prefix / fold-count filters) x 8 threads with different arguments x 40 rounds, sharing one schema and one compiled query; 6 concurrent compilations per query"
// @ob compiling from several threads yields equal compiled queries, and executing one shared compiled query from 8 threads at once yields, for each thread, exactly the rows of sequential execution
pub(crate) fn c24_grid_concurrent_equals_sequential() {
    #[cfg(all(test, verif_replay))]
    concurrent::grid();
}
