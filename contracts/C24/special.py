"""C24: type-level proof by rustc's trait solver + stated, grepped assumptions."""
import json, os, re, shutil, time


def run(a, d):
    t0 = time.time()
    prop, tier, repo = "C24", a.tier, a.repo
    overlays, meta = d.load_property(prop)
    logdir = os.path.join(d.CACHE, "logs", f"{prop}-{tier}{d.TAG}")
    shutil.rmtree(logdir, ignore_errors=True)
    os.makedirs(logdir)
    undecided, violations = [], []
    violations_repro, grid_report = [], []
    obligations = discharged = 0
    scan = {}
    root = None
    try:
        root, ws, anchors = d.make_scratch(repo, prop, overlays, "-" + tier + d.TAG)
        text = overlays[0].text
        obligations = len(re.findall(r"^\s*(thread_safe|sendable)::<", text, re.M))
        # the module is only compiled under cfg(verif_replay); use `cargo check` with the repository toolchain
        env = d.replay_env(d.Harness("c24"), "/dev/null")
        with d.NativeTree(ws) as nws:
            rc, out, wall, to, _ = d.run_cmd(["cargo", "check", "--offline", "-p", "trustfall_core", "--lib", "--message-format", "short"], nws, env, 1500)
        open(os.path.join(logdir, "cargo-check.log"), "w").write(out)
        errs = [l for l in out.split("\n") if re.search(r"error(\[E\d+\])?:", l)]
        if rc == 0:
            discharged = obligations
            grids = [h for o in overlays for h in o.harnesses if h.kind == "native-grid" and (tier == "thorough" or h.tier == "quick")]
            gres = d.run_grids(ws, grids, logdir)
            for h in grids:
                r = gres[h.name]
                grid_report.append(dict(harness=h.full, bound=h.bound, cases_executed=r.get("cases", 0), status=r["status"], obligation=h.obligations, reason=r.get("reason", "")))
                if r["status"] == "refuted":
                    p = d.write_replay_file(prop, h.name, dict(property=prop, backend="native concurrent execution of the real engine (bounded stand-in)", failed_obligations=r["failed"], failing_case=r.get("case"), reproduced=True, native_output=r.get("tail", "")))
                    violations_repro.append(p)
                elif r["status"] != "pass":
                    undecided.append(f"{h.name}: {r['reason']}")
        else:
            auto = [l for l in errs if re.search(r"cannot be (sent|shared) between threads safely|E0277", l)]
            in_overlay = [l for l in auto if "lib.rs" in l]
            if auto and in_overlay:
                p = d.write_replay_file(prop, "c24_obligations", dict(property=prop, backend="rustc trait solver (cargo check)", failed_obligations=auto[:10],
                                        note="auto-trait obligation refuted: there is no input to replay; the compiler names the offending field/type", verifier_output=out[-4000:], reproduced=False))
                violations.append(p)
            else:
                undecided.append("overlay/compile error (lost anchor?): " + " | ".join(errs[:4]))
        # assumptions, grepped (not proved): no unsafe, no static mut, interior mutability only via OnceLock/atomics
        for dirpath, _, files in os.walk(os.path.join(repo, "trustfall_core/src")):
            for fn in files:
                if not fn.endswith(".rs") or fn in ("tests.rs",) or "/tests" in dirpath:
                    continue
                src = open(os.path.join(dirpath, fn)).read().split("#[cfg(test)]")[0]
                for pat in (r"\bunsafe\b", r"static\s+mut\b", r"\bRefCell\b", r"\bCell<", r"\bRc<", r"\bMutex\b", r"\bRwLock\b", r"thread_local!", r"\bOnceLock\b", r"Atomic\w+"):
                    c = len(re.findall(pat, src))
                    if c:
                        scan.setdefault(pat, {})[os.path.relpath(os.path.join(dirpath, fn), repo)] = c
        lib = open(os.path.join(repo, "trustfall_core/src/lib.rs")).read()
        forbid = "#![forbid(unsafe_code)]" in lib
        if not forbid:
            undecided.append("assumption lost: #![forbid(unsafe_code)] no longer present in trustfall_core/src/lib.rs")
    except d.Undecided as e:
        undecided.append(str(e))
        anchors = []
    finally:
        if root and not a.keep:
            shutil.rmtree(root, ignore_errors=True)
    wall = time.time() - t0
    for p in violations:
        print(f"VIOLATION property={prop} replay={p} no-failing-input-found")
    for p in violations_repro:
        print(f"VIOLATION property={prop} replay={p}")
    for u in undecided:
        d.log(f"UNDECIDED {prop}: {u}")
    if not d.TAG:
        ev = dict(property_id=prop, tier=tier, seed=int(os.environ.get("VERIF_SEED", "0") or 0), level="proof",
                  coverage=dict(obligations=max(obligations, 1), discharged=discharged,
                                checker_cmd="./check C24  (overlay module appended to lib.rs; RUSTFLAGS='--cfg verif_replay' cargo check -p trustfall_core --lib)",
                                trusted_base=["rustc " + "trait solver (auto traits Send/Sync)", "std's Send/Sync impls for Arc, BTreeMap, OnceLock"],
                                functions_under_contract=anchors,
                                samples=re.findall(r"(?:thread_safe|sendable)::<(.*)>\(\);", overlays[0].text)[:30],
                                explanation="Each obligation `T: Send + Sync` is an auto-trait goal; rustc proves it structurally over all fields of all types reachable from T, for every instance. The second clause of the property (concurrent == sequential results) follows from Rust's aliasing rules only under the assumptions listed (no unsafe - enforced by #![forbid(unsafe_code)], which rustc also checks - no static mut, interior mutability only through OnceLock/atomics); those are grepped and reported here, not proved.",
                                interior_mutability_scan=scan, forbid_unsafe_code=("#![forbid(unsafe_code)]" in open(os.path.join(repo, "trustfall_core/src/lib.rs")).read()),
                                bounded_native_grids=grid_report,
                                undecided=undecided, exhaustive=False),
                  assumptions=["rustc's trait solver is sound for auto traits", "concurrent == sequential is NOT proved by a verifier: it rests on forbid(unsafe_code) (compiler-checked) and on the absence of static mut / non-Sync interior mutability (grepped, listed under interior_mutability_scan)", "dependencies' unsafe code (std, smallvec, regex, serde) is trusted"],
                  wall_s=round(wall, 1), violations=len(violations) + len(violations_repro))
        os.makedirs(os.path.join(d.VERIF, "evidence"), exist_ok=True)
        json.dump(ev, open(os.path.join(d.VERIF, "evidence", f"{prop}.json"), "w"), indent=1)
    d.log(f"[{prop}/{tier}] obligations={obligations} discharged={discharged} grids={[(g['harness'].split('::')[-1], g['cases_executed']) for g in grid_report]} violations={len(violations) + len(violations_repro)} undecided={len(undecided)} wall={wall:.0f}s")
    return 1 if (violations or violations_repro) else (2 if undecided else 0)
