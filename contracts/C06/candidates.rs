// @target trustfall_core/src/interpreter/hints/candidates.rs
// @module verif_c06
// @fn CandidateValue::intersect
// @fn CandidateValue::exclude_single_value
// @fn CandidateValue::normalize
// @fn Range::new
// @fn Range::with_start
// @fn Range::with_end
// @fn Range::intersect
// @fn Range::contains
// @fn Range::degenerate
// @fn Range::null_only
// @fn Range::full
// @fn Range::full_non_null
//
// Parametric instantiation (DESIGN.md 1.3): the generic code uses `T` only through
// PartialEq/PartialOrd/Clone/Default/NullableValue, and every loop-free operation touches at most
// five values, so T = K(Option<u8>) with symbolic keys decides it for every totally ordered T.
use super::*;
use crate::verif_vk as vk;
use std::ops::Bound;

#[derive(Debug, Clone, PartialEq, Eq, PartialOrd, Default)]
pub(crate) struct K(Option<u8>);
impl NullableValue for K {
    fn is_null(&self) -> bool {
        self.0.is_none()
    }
}

// ---- spec: membership, written over the keys (independent of Range::contains) --------------
fn mem_range(r: &Range<K>, p: &K) -> bool {
    match p.0 {
        None => r.null_included,
        Some(x) => {
            let lo = match &r.start {
                Bound::Included(s) => s.0.unwrap() <= x,
                Bound::Excluded(s) => s.0.unwrap() < x,
                Bound::Unbounded => true,
            };
            let hi = match &r.end {
                Bound::Included(e) => x <= e.0.unwrap(),
                Bound::Excluded(e) => x < e.0.unwrap(),
                Bound::Unbounded => true,
            };
            lo && hi
        }
    }
}
fn mem(c: &CandidateValue<K>, p: &K) -> bool {
    match c {
        CandidateValue::Impossible => false,
        CandidateValue::Single(s) => s.0 == p.0,
        CandidateValue::Multiple(m) => {
            // bounded vectors (len <= 3 in these harnesses)
            (m.len() > 0 && m[0].0 == p.0) || (m.len() > 1 && m[1].0 == p.0) || (m.len() > 2 && m[2].0 == p.0) || (m.len() > 3 && m[3].0 == p.0)
        }
        CandidateValue::Range(r) => mem_range(r, p),
        CandidateValue::All => true,
    }
}
/// representation invariant: range bounds are never null (Range::new asserts it)
fn inv_range(r: &Range<K>) -> bool {
    (match &r.start { Bound::Included(s) | Bound::Excluded(s) => s.0.is_some(), Bound::Unbounded => true })
        && (match &r.end { Bound::Included(s) | Bound::Excluded(s) => s.0.is_some(), Bound::Unbounded => true })
}
fn inv(c: &CandidateValue<K>) -> bool {
    match c { CandidateValue::Range(r) => inv_range(r), _ => true }
}
/// normal form promised by `normalize`
fn normal(c: &CandidateValue<K>) -> bool {
    match c {
        CandidateValue::Range(r) => {
            !r.degenerate() && !(matches!(r.start, Bound::Unbounded) && matches!(r.end, Bound::Unbounded) && r.null_included)
                && !(matches!((&r.start, &r.end), (Bound::Included(a), Bound::Included(b)) if a == b))
        }
        // at least two values, each listed once (vectors in these harnesses have at most 3 elements)
        CandidateValue::Multiple(m) => m.len() >= 2 && m[0] != m[1] && (m.len() < 3 || (m[0] != m[2] && m[1] != m[2])),
        _ => true,
    }
}

// ---- symbolic constructors ---------------------------------------------------------------
fn any_key() -> K { K(Some(vk::any_u8())) }
fn any_probe() -> K { if vk::any_bool() { K(None) } else { any_key() } }
fn any_bound() -> Bound<K> {
    match vk::any_u8() % 3 { 0 => Bound::Unbounded, 1 => Bound::Included(any_key()), _ => Bound::Excluded(any_key()) }
}
fn any_range() -> Range<K> { Range::new(any_bound(), any_bound(), vk::any_bool()) }

const C_IMP: u8 = 0;
const C_SINGLE: u8 = 1;
const C_RANGE: u8 = 2;
const C_ALL: u8 = 3;
const C_MULTI: u8 = 4;
fn mk_cand(kind: u8, mlen: usize) -> CandidateValue<K> {
    match kind {
        C_IMP => CandidateValue::Impossible,
        C_SINGLE => CandidateValue::Single(any_probe()),
        C_RANGE => CandidateValue::Range(any_range()),
        C_ALL => CandidateValue::All,
        _ => {
            let mut v = Vec::with_capacity(4);
            if mlen > 0 { v.push(any_probe()); }
            if mlen > 1 { v.push(any_probe()); }
            if mlen > 2 { v.push(any_probe()); }
            CandidateValue::Multiple(v)
        }
    }
}
macro_rules! split4 {
    ($sel:expr, $k:ident => $body:block) => {
        match $sel { 0 => { let $k: u8 = 0; $body } 1 => { let $k: u8 = 1; $body } 2 => { let $k: u8 = 2; $body } _ => { let $k: u8 = 3; $body } }
    };
}
macro_rules! split_n {
    ($sel:expr, $n:ident => $body:block) => {
        match $sel { 0 => { let $n: usize = 0; $body } 1 => { let $n: usize = 1; $body } 2 => { let $n: usize = 2; $body } _ => { let $n: usize = 3; $body } }
    };
}

// ---- Range ---------------------------------------------------------------------------------
// @harness c06_range_contains_degenerate tier=quick kind=complete
// @ob Range::contains(p) == spec membership over the keys, for every range shape (incl/excl/unbounded x null flag) and probe (null or key)
// @ob degenerate() => no non-null member; null_only() => members are exactly {null}; full() contains everything; full_non_null() everything but null
#[kani::proof]
#[kani::unwind(2)]
pub(crate) fn c06_range_contains_degenerate() {
    let r = any_range();
    let p = any_probe();
    assert!(inv_range(&r), "Range::new establishes the invariant");
    assert!(r.contains(&p) == mem_range(&r, &p), "contains == spec membership");
    verif_cover!(r.degenerate(), "degenerate reachable");
    verif_cover!(r.null_only(), "null_only reachable");
    if r.degenerate() && !p.is_null() {
        assert!(!mem_range(&r, &p), "degenerate range has no non-null member");
    }
    if r.null_only() {
        assert!(mem_range(&r, &p) == p.is_null(), "null_only range contains exactly null");
    }
    assert!(Range::<K>::full().contains(&p), "full contains everything");
    assert!(Range::<K>::full_non_null().contains(&p) == !p.is_null(), "full_non_null contains exactly the non-null values");
    let b = any_bound();
    let nf = vk::any_bool();
    let (ws, we) = (Range::with_start(b.clone(), nf), Range::with_end(b.clone(), nf));
    assert!(ws.start == b && matches!(ws.end, Bound::Unbounded) && ws.null_included == nf, "with_start builds [b, +inf)");
    assert!(we.end == b && matches!(we.start, Bound::Unbounded) && we.null_included == nf, "with_end builds (-inf, b]");
}

// @harness c06_range_intersect_exact tier=quick kind=complete
// @ob Range::intersect: for all r1, r2 and every probe p: p in r1' <=> p in r1 and p in r2; invariant preserved
#[kani::proof]
#[kani::unwind(2)]
pub(crate) fn c06_range_intersect_exact() {
    let (mut r1, r2) = (any_range(), any_range());
    let p = any_probe();
    let before = mem_range(&r1, &p) && mem_range(&r2, &p);
    verif_cover!(before, "common member reachable");
    r1.intersect(r2);
    assert!(inv_range(&r1), "invariant preserved");
    assert!(mem_range(&r1, &p) == before, "intersection is exact");
}

// ---- CandidateValue without Multiple: loop-free => complete ----------------------------------
// @harness c06_intersect_exact_nomulti_impossible tier=quick heavy=1 kind=complete unwindset="swap_nonoverlapping=10"
// @ob CandidateValue::intersect of Impossible with each of {Impossible, Single, Range, All}: p in c1' <=> p in c1 and p in c2, for every probe; result satisfies the invariant and is in normal form
#[kani::proof]
#[kani::unwind(3)]
pub(crate) fn c06_intersect_exact_nomulti_impossible() {
    let s2 = vk::any_u8();
    split4!(s2, k2 => {
        let (mut c1, c2) = (mk_cand(0, 0), mk_cand(k2, 0));
        let p = any_probe();
        let before = mem(&c1, &p) && mem(&c2, &p);
        verif_cover!(!before, "Impossible has no member in common with anything");
        c1.intersect(c2);
        assert!(inv(&c1), "invariant preserved");
        assert!(mem(&c1, &p) == before, "intersection is exact");
        assert!(normal(&c1), "result is normalized");
        core::mem::forget(c1);
    });
}

// @harness c06_intersect_exact_nomulti_single tier=quick heavy=1 kind=complete unwindset="swap_nonoverlapping=10"
// @ob CandidateValue::intersect of Single with each of {Impossible, Single, Range, All}: p in c1' <=> p in c1 and p in c2, for every probe; result satisfies the invariant and is in normal form
#[kani::proof]
#[kani::unwind(3)]
pub(crate) fn c06_intersect_exact_nomulti_single() {
    let s2 = vk::any_u8();
    split4!(s2, k2 => {
        let (mut c1, c2) = (mk_cand(1, 0), mk_cand(k2, 0));
        let p = any_probe();
        let before = mem(&c1, &p) && mem(&c2, &p);
        verif_cover!(before, "common member reachable");
        c1.intersect(c2);
        assert!(inv(&c1), "invariant preserved");
        assert!(mem(&c1, &p) == before, "intersection is exact");
        assert!(normal(&c1), "result is normalized");
        core::mem::forget(c1);
    });
}

// @harness c06_intersect_exact_nomulti_range tier=quick heavy=1 kind=complete unwindset="swap_nonoverlapping=10"
// @ob CandidateValue::intersect of Range with each of {Impossible, Single, Range, All}: p in c1' <=> p in c1 and p in c2, for every probe; result satisfies the invariant and is in normal form
#[kani::proof]
#[kani::unwind(3)]
pub(crate) fn c06_intersect_exact_nomulti_range() {
    let s2 = vk::any_u8();
    split4!(s2, k2 => {
        let (mut c1, c2) = (mk_cand(2, 0), mk_cand(k2, 0));
        let p = any_probe();
        let before = mem(&c1, &p) && mem(&c2, &p);
        verif_cover!(before, "common member reachable");
        c1.intersect(c2);
        assert!(inv(&c1), "invariant preserved");
        assert!(mem(&c1, &p) == before, "intersection is exact");
        assert!(normal(&c1), "result is normalized");
        core::mem::forget(c1);
    });
}

// @harness c06_intersect_exact_nomulti_all tier=quick heavy=1 kind=complete unwindset="swap_nonoverlapping=10"
// @ob CandidateValue::intersect of All with each of {Impossible, Single, Range, All}: p in c1' <=> p in c1 and p in c2, for every probe; result satisfies the invariant and is in normal form
#[kani::proof]
#[kani::unwind(3)]
pub(crate) fn c06_intersect_exact_nomulti_all() {
    let s2 = vk::any_u8();
    split4!(s2, k2 => {
        let (mut c1, c2) = (mk_cand(3, 0), mk_cand(k2, 0));
        let p = any_probe();
        let before = mem(&c1, &p) && mem(&c2, &p);
        verif_cover!(before, "common member reachable");
        c1.intersect(c2);
        assert!(inv(&c1), "invariant preserved");
        assert!(mem(&c1, &p) == before, "intersection is exact");
        assert!(normal(&c1), "result is normalized");
        core::mem::forget(c1);
    });
}

// @harness c06_normalize_nomulti tier=quick kind=complete
// @ob normalize never changes membership (any range shape) and yields a normal form: never Range(full), never a degenerate range, never a point range
#[kani::proof]
#[kani::unwind(2)]
pub(crate) fn c06_normalize_nomulti() {
    let mut c = CandidateValue::Range(any_range());
    let p = any_probe();
    let before = mem(&c, &p);
    c.normalize();
    verif_cover!(matches!(c, CandidateValue::Multiple(_)), "point range with null becomes Multiple");
    verif_cover!(matches!(c, CandidateValue::Single(_)), "Single reachable");
    verif_cover!(matches!(c, CandidateValue::All), "All reachable");
    assert!(mem(&c, &p) == before, "normalize preserves membership");
    assert!(normal(&c) && inv(&c), "normal form");
    core::mem::forget(c);
}

// @harness c06_exclude_nomulti tier=quick kind=complete
// @ob exclude_single_value(x) on {Impossible, Single, Range, All}: result subset of original; every original member other than x is kept; when the original is Single or x is null the result excludes x exactly
#[kani::proof]
#[kani::unwind(2)]
pub(crate) fn c06_exclude_nomulti() {
    let s = vk::any_u8();
    split4!(s, k => {
        let mut c = mk_cand(k, 0);
        let (p, x) = (any_probe(), any_probe());
        let before = mem(&c, &p);
        c.exclude_single_value(&x);
        assert!(inv(&c), "invariant preserved");
        assert!(!mem(&c, &p) || before, "result is contained in the original");
        assert!(!(before && p != x) || mem(&c, &p), "everything else is kept");
        if k == C_SINGLE || k == C_IMP || x.is_null() {
            assert!(!mem(&c, &x), "x is excluded exactly");
        }
        core::mem::forget(c);
    });
}

// ---- with Multiple: bounded vectors ---------------------------------------------------------
// Multiple x Multiple beyond length 1 (2x1, 2x2, 3x3) was attempted in the thorough tier and removed: since normalize() drops repeated
// values (fix 2561baf) CBMC exhausts 24 GB on them. Those shapes are exercised only through the native grids of C04 (bounded).
fn check_intersect(a: CandidateValue<K>, b: CandidateValue<K>, flip: bool) {
    let p = any_probe();
    let before = mem(&a, &p) && mem(&b, &p);
    verif_cover!(true, "reached");
    let (mut c1, c2) = if flip { (b, a) } else { (a, b) };
    c1.intersect(c2);
    assert!(inv(&c1), "invariant preserved");
    assert!(mem(&c1, &p) == before, "intersection with Multiple is exact");
    assert!(normal(&c1), "result is normalized");
    core::mem::forget(c1);
}

// @harness c06_intersect_multi1_impossible_self tier=quick heavy=1 kind=bounded bound="Multiple vector of length 1" timeout=1200 unwindset="swap_nonoverlapping=10"
// @ob CandidateValue::intersect of Multiple(len 1) with impossible with the Multiple as receiver: exact for every probe, invariant preserved, normalized
#[kani::proof]
#[kani::unwind(3)]
pub(crate) fn c06_intersect_multi1_impossible_self() {
    check_intersect(mk_cand(C_MULTI, 1), mk_cand(0, 0), false);
}

// @harness c06_intersect_multi1_impossible_other tier=quick heavy=1 kind=bounded bound="Multiple vector of length 1" timeout=1200 unwindset="swap_nonoverlapping=10"
// @ob CandidateValue::intersect of Multiple(len 1) with impossible with the Multiple as argument: exact for every probe, invariant preserved, normalized
#[kani::proof]
#[kani::unwind(3)]
pub(crate) fn c06_intersect_multi1_impossible_other() {
    check_intersect(mk_cand(C_MULTI, 1), mk_cand(0, 0), true);
}

// @harness c06_intersect_multi1_single_self tier=quick heavy=1 kind=bounded bound="Multiple vector of length 1" timeout=1200 unwindset="swap_nonoverlapping=10"
// @ob CandidateValue::intersect of Multiple(len 1) with single with the Multiple as receiver: exact for every probe, invariant preserved, normalized
#[kani::proof]
#[kani::unwind(3)]
pub(crate) fn c06_intersect_multi1_single_self() {
    check_intersect(mk_cand(C_MULTI, 1), mk_cand(1, 0), false);
}

// @harness c06_intersect_multi1_single_other tier=quick heavy=1 kind=bounded bound="Multiple vector of length 1" timeout=1200 unwindset="swap_nonoverlapping=10"
// @ob CandidateValue::intersect of Multiple(len 1) with single with the Multiple as argument: exact for every probe, invariant preserved, normalized
#[kani::proof]
#[kani::unwind(3)]
pub(crate) fn c06_intersect_multi1_single_other() {
    check_intersect(mk_cand(C_MULTI, 1), mk_cand(1, 0), true);
}

// @harness c06_intersect_multi1_range_self tier=quick heavy=1 kind=bounded bound="Multiple vector of length 1" timeout=1200 unwindset="swap_nonoverlapping=10"
// @ob CandidateValue::intersect of Multiple(len 1) with range with the Multiple as receiver: exact for every probe, invariant preserved, normalized
#[kani::proof]
#[kani::unwind(3)]
pub(crate) fn c06_intersect_multi1_range_self() {
    check_intersect(mk_cand(C_MULTI, 1), mk_cand(2, 0), false);
}

// @harness c06_intersect_multi1_range_other tier=quick heavy=1 kind=bounded bound="Multiple vector of length 1" timeout=1200 unwindset="swap_nonoverlapping=10"
// @ob CandidateValue::intersect of Multiple(len 1) with range with the Multiple as argument: exact for every probe, invariant preserved, normalized
#[kani::proof]
#[kani::unwind(3)]
pub(crate) fn c06_intersect_multi1_range_other() {
    check_intersect(mk_cand(C_MULTI, 1), mk_cand(2, 0), true);
}

// @harness c06_intersect_multi1_all_self tier=quick heavy=1 kind=bounded bound="Multiple vector of length 1" timeout=1200 unwindset="swap_nonoverlapping=10"
// @ob CandidateValue::intersect of Multiple(len 1) with all with the Multiple as receiver: exact for every probe, invariant preserved, normalized
#[kani::proof]
#[kani::unwind(3)]
pub(crate) fn c06_intersect_multi1_all_self() {
    check_intersect(mk_cand(C_MULTI, 1), mk_cand(3, 0), false);
}

// @harness c06_intersect_multi1_all_other tier=quick heavy=1 kind=bounded bound="Multiple vector of length 1" timeout=1200 unwindset="swap_nonoverlapping=10"
// @ob CandidateValue::intersect of Multiple(len 1) with all with the Multiple as argument: exact for every probe, invariant preserved, normalized
#[kani::proof]
#[kani::unwind(3)]
pub(crate) fn c06_intersect_multi1_all_other() {
    check_intersect(mk_cand(C_MULTI, 1), mk_cand(3, 0), true);
}

// @harness c06_intersect_multi1_multi1 tier=quick heavy=1 kind=bounded bound="Multiple vectors of lengths 1 and 1" timeout=1200 unwindset="swap_nonoverlapping=10"
// @ob CandidateValue::intersect of Multiple(len 1) with Multiple(len 1) (receiver first): exact for every probe, normalized
#[kani::proof]
#[kani::unwind(3)]
pub(crate) fn c06_intersect_multi1_multi1() {
    check_intersect(mk_cand(C_MULTI, 1), mk_cand(C_MULTI, 1), false);
}

// @harness c06_intersect_multi2_impossible_self tier=thorough heavy=1 kind=bounded bound="Multiple vector of length 2" timeout=1200 unwindset="swap_nonoverlapping=10"
// @ob CandidateValue::intersect of Multiple(len 2) with impossible with the Multiple as receiver: exact for every probe, invariant preserved, normalized
#[kani::proof]
#[kani::unwind(4)]
pub(crate) fn c06_intersect_multi2_impossible_self() {
    check_intersect(mk_cand(C_MULTI, 2), mk_cand(0, 0), false);
}

// @harness c06_intersect_multi2_impossible_other tier=thorough heavy=1 kind=bounded bound="Multiple vector of length 2" timeout=1200 unwindset="swap_nonoverlapping=10"
// @ob CandidateValue::intersect of Multiple(len 2) with impossible with the Multiple as argument: exact for every probe, invariant preserved, normalized
#[kani::proof]
#[kani::unwind(4)]
pub(crate) fn c06_intersect_multi2_impossible_other() {
    check_intersect(mk_cand(C_MULTI, 2), mk_cand(0, 0), true);
}

// @harness c06_intersect_multi2_single_self tier=thorough heavy=1 kind=bounded bound="Multiple vector of length 2" timeout=1200 unwindset="swap_nonoverlapping=10"
// @ob CandidateValue::intersect of Multiple(len 2) with single with the Multiple as receiver: exact for every probe, invariant preserved, normalized
#[kani::proof]
#[kani::unwind(4)]
pub(crate) fn c06_intersect_multi2_single_self() {
    check_intersect(mk_cand(C_MULTI, 2), mk_cand(1, 0), false);
}

// @harness c06_intersect_multi2_single_other tier=thorough heavy=1 kind=bounded bound="Multiple vector of length 2" timeout=1200 unwindset="swap_nonoverlapping=10"
// @ob CandidateValue::intersect of Multiple(len 2) with single with the Multiple as argument: exact for every probe, invariant preserved, normalized
#[kani::proof]
#[kani::unwind(4)]
pub(crate) fn c06_intersect_multi2_single_other() {
    check_intersect(mk_cand(C_MULTI, 2), mk_cand(1, 0), true);
}

// @harness c06_intersect_multi2_all_self tier=thorough heavy=1 kind=bounded bound="Multiple vector of length 2" timeout=1200 unwindset="swap_nonoverlapping=10"
// @ob CandidateValue::intersect of Multiple(len 2) with all with the Multiple as receiver: exact for every probe, invariant preserved, normalized
#[kani::proof]
#[kani::unwind(4)]
pub(crate) fn c06_intersect_multi2_all_self() {
    check_intersect(mk_cand(C_MULTI, 2), mk_cand(3, 0), false);
}

// @harness c06_intersect_multi2_all_other tier=thorough heavy=1 kind=bounded bound="Multiple vector of length 2" timeout=1200 unwindset="swap_nonoverlapping=10"
// @ob CandidateValue::intersect of Multiple(len 2) with all with the Multiple as argument: exact for every probe, invariant preserved, normalized
#[kani::proof]
#[kani::unwind(4)]
pub(crate) fn c06_intersect_multi2_all_other() {
    check_intersect(mk_cand(C_MULTI, 2), mk_cand(3, 0), true);
}

// @harness c06_intersect_multi3_all_self tier=thorough heavy=1 kind=bounded bound="Multiple vector of length 3" timeout=1200 unwindset="swap_nonoverlapping=10"
// @ob CandidateValue::intersect of Multiple(len 3) with all with the Multiple as receiver: exact for every probe, invariant preserved, normalized
#[kani::proof]
#[kani::unwind(5)]
pub(crate) fn c06_intersect_multi3_all_self() {
    check_intersect(mk_cand(C_MULTI, 3), mk_cand(3, 0), false);
}

// @harness c06_intersect_multi3_all_other tier=thorough heavy=1 kind=bounded bound="Multiple vector of length 3" timeout=1200 unwindset="swap_nonoverlapping=10"
// @ob CandidateValue::intersect of Multiple(len 3) with all with the Multiple as argument: exact for every probe, invariant preserved, normalized
#[kani::proof]
#[kani::unwind(5)]
pub(crate) fn c06_intersect_multi3_all_other() {
    check_intersect(mk_cand(C_MULTI, 3), mk_cand(3, 0), true);
}

// @harness c06_exclude_multi0 tier=quick kind=bounded bound="Multiple vector of length 0" timeout=1200
// @ob exclude_single_value on Multiple of length 0 removes exactly the values equal to x and leaves a normal form (Impossible/Single for 0/1 remaining values, no value listed twice)
#[kani::proof]
#[kani::unwind(2)]
pub(crate) fn c06_exclude_multi0() {
    let mut c = mk_cand(C_MULTI, 0);
    let (p, x) = (any_probe(), any_probe());
    let before = mem(&c, &p);
    c.exclude_single_value(&x);
    assert!(mem(&c, &p) == (before && p != x), "Multiple minus x is exact");
    assert!(normal(&c), "normal form");
    core::mem::forget(c);
}

// @harness c06_exclude_multi1 tier=quick kind=bounded bound="Multiple vector of length 1" timeout=1200
// @ob exclude_single_value on Multiple of length 1 removes exactly the values equal to x and leaves a normal form (Impossible/Single for 0/1 remaining values, no value listed twice)
#[kani::proof]
#[kani::unwind(3)]
pub(crate) fn c06_exclude_multi1() {
    let mut c = mk_cand(C_MULTI, 1);
    let (p, x) = (any_probe(), any_probe());
    let before = mem(&c, &p);
    c.exclude_single_value(&x);
    assert!(mem(&c, &p) == (before && p != x), "Multiple minus x is exact");
    assert!(normal(&c), "normal form");
    core::mem::forget(c);
}

// @harness c06_exclude_multi2 tier=quick kind=bounded bound="Multiple vector of length 2" timeout=1200
// @ob exclude_single_value on Multiple of length 2 removes exactly the values equal to x and leaves a normal form (Impossible/Single for 0/1 remaining values, no value listed twice)
#[kani::proof]
#[kani::unwind(4)]
pub(crate) fn c06_exclude_multi2() {
    let mut c = mk_cand(C_MULTI, 2);
    let (p, x) = (any_probe(), any_probe());
    let before = mem(&c, &p);
    c.exclude_single_value(&x);
    assert!(mem(&c, &p) == (before && p != x), "Multiple minus x is exact");
    assert!(normal(&c), "normal form");
    core::mem::forget(c);
}

// @harness c06_exclude_multi3 tier=thorough heavy=1 kind=bounded bound="Multiple vector of length 3" timeout=1200
// @ob exclude_single_value on Multiple of length 3 removes exactly the values equal to x and leaves a normal form (Impossible/Single for 0/1 remaining values, no value listed twice)
#[kani::proof]
#[kani::unwind(5)]
pub(crate) fn c06_exclude_multi3() {
    let mut c = mk_cand(C_MULTI, 3);
    let (p, x) = (any_probe(), any_probe());
    let before = mem(&c, &p);
    c.exclude_single_value(&x);
    assert!(mem(&c, &p) == (before && p != x), "Multiple minus x is exact");
    assert!(normal(&c), "normal form");
    core::mem::forget(c);
}

// @harness c06_normalize_multi0 tier=quick kind=bounded bound="Multiple vector of length 0" timeout=1200
// @ob normalize on Multiple of length 0 preserves membership and yields a normal form: Impossible/Single for 0/1 distinct values, and no value listed twice (an adapter that iterates over the candidates must not see one twice)
#[kani::proof]
#[kani::unwind(2)]
pub(crate) fn c06_normalize_multi0() {
    let mut c = mk_cand(C_MULTI, 0);
    let p = any_probe();
    let before = mem(&c, &p);
    c.normalize();
    assert!(mem(&c, &p) == before, "normalize preserves membership");
    assert!(normal(&c), "normal form");
    core::mem::forget(c);
}

// @harness c06_normalize_multi1 tier=quick kind=bounded bound="Multiple vector of length 1" timeout=1200
// @ob normalize on Multiple of length 1 preserves membership and yields a normal form: Impossible/Single for 0/1 distinct values, and no value listed twice (an adapter that iterates over the candidates must not see one twice)
#[kani::proof]
#[kani::unwind(3)]
pub(crate) fn c06_normalize_multi1() {
    let mut c = mk_cand(C_MULTI, 1);
    let p = any_probe();
    let before = mem(&c, &p);
    c.normalize();
    assert!(mem(&c, &p) == before, "normalize preserves membership");
    assert!(normal(&c), "normal form");
    core::mem::forget(c);
}

// @harness c06_normalize_multi2 tier=quick kind=bounded bound="Multiple vector of length 2" timeout=1200
// @ob normalize on Multiple of length 2 preserves membership and yields a normal form: Impossible/Single for 0/1 distinct values, and no value listed twice (an adapter that iterates over the candidates must not see one twice)
#[kani::proof]
#[kani::unwind(4)]
pub(crate) fn c06_normalize_multi2() {
    let mut c = mk_cand(C_MULTI, 2);
    let p = any_probe();
    let before = mem(&c, &p);
    c.normalize();
    verif_cover!(matches!(c, CandidateValue::Single(_)), "equal values collapse to Single");
    assert!(mem(&c, &p) == before, "normalize preserves membership");
    assert!(normal(&c), "normal form");
    core::mem::forget(c);
}

// @harness c06_normalize_multi3 tier=thorough heavy=1 kind=bounded bound="Multiple vector of length 3" timeout=1200
// @ob normalize on Multiple of length 3 preserves membership and yields a normal form: Impossible/Single for 0/1 distinct values, and no value listed twice (an adapter that iterates over the candidates must not see one twice)
#[kani::proof]
#[kani::unwind(5)]
pub(crate) fn c06_normalize_multi3() {
    let mut c = mk_cand(C_MULTI, 3);
    let p = any_probe();
    let before = mem(&c, &p);
    c.normalize();
    verif_cover!(matches!(c, CandidateValue::Single(_)), "equal values collapse to Single");
    assert!(mem(&c, &p) == before, "normalize preserves membership");
    assert!(normal(&c), "normal form");
    core::mem::forget(c);
}

// @harness c06_negative_control tier=quick kind=complete expect=fail
// @ob (control) claims the intersection of two ranges always contains the probe when the first one does: must FAIL
#[kani::proof]
#[kani::unwind(2)]
pub(crate) fn c06_negative_control() {
    let (mut r1, r2) = (any_range(), any_range());
    let p = any_probe();
    let before = mem_range(&r1, &p);
    r1.intersect(r2);
    assert!(mem_range(&r1, &p) == before, "control: intersect ignores the other range (false)");
}
